"""Helper inlining on the fact base (typed HIR and MIR), applied before any rule runs.

Why: the rules are anchored in the functions that exist on the reference tree (rules/known_fns.json).  The commonest
maintenance edit - "extract a helper" - moves part of an anchored function into a *new* function; analysed
intra-procedurally the anchored function would then seem to have lost a mechanism (false alarm), and the helper would seem
to be a new writer / new caller (another false alarm).  So every function that is NOT on the known list, is not
recursive and is called directly is expanded at each of its call sites, in the HIR tree and in the MIR CFG of the
caller, and then dropped from the function table.  The rules therefore see the known functions with the helper's code
in place - whatever the helper does (right or wrong) is attributed to the anchored caller.

Nothing is executed; this is the classic bounded inlining of summary-free static checkers (Min et al. 2015, §4).
HIR:  call -> `{ let <param> = <arg>; ...; <body with `return`s turned into values> }`; simple arguments are substituted.
MIR:  call terminator -> goto copy of the callee's blocks (locals/blocks renumbered), `return` -> assign dest; goto target.
A helper whose `return`s cannot be expressed as values (a `return` inside a loop) is expanded in MIR only and its HIR
call is left in place (recorded in `notes`).
"""
import copy
import json, re
import os

from . import hir

HERE = os.path.dirname(os.path.abspath(__file__))
KNOWN_FILE = os.path.join(HERE, "known_fns.json")


def known_fns():
    try:
        return set(json.load(open(KNOWN_FILE)))
    except Exception:
        return None


class Cannot(Exception):
    pass


# ---------------------------------------------------------------------------
# HIR: return elimination

def _has_ret(n):
    if not isinstance(n, dict):
        return False
    if n.get("k") == "Closure":
        return False
    if n.get("k") == "Ret":
        return True
    return any(_has_ret(c) for c in _kids_all(n))


def _kids_all(n):
    """children including let-else blocks and match arms (closures are looked into by the caller when wanted)"""
    for c in hir.kids(n):
        yield c
    if n.get("k") == "SLet" and isinstance(n.get("els"), dict):
        pass  # `els` is in CHILD_KEYS already


def _unit(like):
    return {"k": "Tup", "elems": [], "ty": "()", "sp": like.get("sp")}


def _block(stmts, expr, like, ty=None):
    return {"k": "Block", "stmts": list(stmts), "expr": expr, "unsafe": None, "label": None, "ty": ty or (expr or {}).get("ty", "()"),
            "sp": like.get("sp")}


def _as_stmts(e):
    """an expression used as a branch body -> (stmts, tail)"""
    if e is None:
        return [], None
    if e.get("k") == "Block" and not e.get("label") and not e.get("unsafe"):
        return list(e.get("stmts") or []), e.get("expr")
    return [], e


_HOIST = [0]


def _hoist_one(top):
    """If a control node (match / if / block) containing a `return` is nested *inside* expression `top` (e.g. the `?` in
    `let x = it.next()?.foo() as i8`), cut it out into a fresh `let __hN = <node>;` and return (let statement, True);
    evaluation order of effect-free operands is all that can change.  Returns (None, False) when nothing is nested."""
    def find(n, is_top):
        if not isinstance(n, dict) or n.get("k") == "Closure":
            return None
        if n.get("k") == "Loop" and _has_ret(n):
            raise Cannot("return inside a loop")
        if not is_top and n.get("k") in ("Match", "If", "Block") and _has_ret(n):
            return n
        for key, v in n.items():
            if key in ("sp", "osp", "pat", "to", "callee"):
                continue
            if is_top and ((n.get("k") == "If" and key in ("then", "else")) or (n.get("k") == "Match" and key == "arms")
                           or (n.get("k") == "Block")):
                continue     # the branches of the statement itself are handled structurally by elim_block, only operands are hoisted
            if isinstance(v, dict) and "k" in v:
                r = find(v, False)
                if r is not None:
                    return (n, key, None, r) if not isinstance(r, tuple) else r
            elif isinstance(v, list):
                for i, x in enumerate(v):
                    if isinstance(x, dict) and "k" in x:
                        r = find(x, False)
                        if r is not None:
                            return (n, key, i, r) if not isinstance(r, tuple) else r
                    elif isinstance(x, dict) and "body" in x and "pat" in x:      # match arm record
                        pass
                    elif isinstance(x, dict) and "k" not in x and isinstance(x.get("e"), dict):      # struct field record {name, e}
                        r = find(x["e"], False)
                        if r is not None:
                            return (x, "e", None, r) if not isinstance(r, tuple) else r
        return None
    r = find(top, True)
    if r is None:
        return None, False
    parent, key, idx, node = r
    _HOIST[0] += 1
    lid = 9000000 + _HOIST[0]
    name = "__h%d" % _HOIST[0]
    path = {"k": "Path", "to": {"res": "local", "name": name, "id": lid}, "ty": node.get("ty"), "sp": node.get("sp")}
    if idx is None:
        parent[key] = path
    else:
        parent[key][idx] = path
    let = {"k": "SLet", "pat": {"k": "PBind", "name": name, "id": lid, "mode": "BindingMode(No, Not)", "sub": None, "ty": node.get("ty"), "sp": node.get("sp")},
           "init": node, "els": None, "sp": node.get("sp")}
    return let, True


def elim_block(stmts, tail, like, ty):
    """Return (stmts', tail') equivalent to `{ stmts; tail }` as the *value of the function* with every `return e`
    turned into the value e.  Raises Cannot."""
    for i, st in enumerate(stmts):
        if not _has_ret(st):
            continue
        head, rest = stmts[:i], stmts[i + 1:]
        k = st.get("k")
        # a `return` buried inside an operand: hoist the enclosing control node into its own let first
        top = st.get("init") if k == "SLet" else (st["e"] if k == "SSemi" else st)
        if isinstance(top, dict) and not (k == "SLet" and st.get("els") is not None):
            let, did = _hoist_one(top)
            if did:
                return (lambda r_: (head + r_[0], r_[1]))(elim_block([let, st] + rest, tail, like, ty))
        e = st["e"] if k == "SSemi" else (st if k != "SLet" else None)
        if k == "SLet":
            init = st.get("init")
            els = st.get("els")
            if els is not None and not _has_ret(init):
                # let PAT = init else { ..return.. };  rest   ==>   if let PAT = init { rest } else { els' }
                es, et = _as_stmts(els)
                es2, et2 = elim_block(es, et, like, ty)
                rs2, rt2 = elim_block(rest, tail, like, ty)
                cond = {"k": "Let", "pat": st["pat"], "init": init, "ty": "bool", "sp": st.get("sp")}
                node = {"k": "If", "cond": cond, "then": _block(rs2, rt2, like, ty), "else": _block(es2, et2, like, ty), "ty": ty, "sp": st.get("sp")}
                return head, node
            if els is None and init is not None and init.get("k") == "Match":
                arms = []
                for a in init["arms"]:
                    b = a["body"]
                    if hir.diverges(b) or (b.get("k") == "Ret"):
                        bs, bt = _as_stmts(b)
                        s2, t2 = elim_block(bs, bt, like, ty)
                    else:
                        if _has_ret(b):
                            raise Cannot("return nested in a let-match arm")
                        s2, t2 = elim_block([dict(st, init=b)] + rest, tail, like, ty)
                    arms.append(dict(a, body=_block(s2, t2, like, ty)))
                return head, dict(init, arms=arms, ty=ty)
            if els is None and init is not None and init.get("k") == "If" and not _has_ret(init["cond"]):
                brs = {}
                for key in ("then", "else"):
                    b = init.get(key)
                    if b is None:
                        raise Cannot("let from an if without else")
                    if hir.diverges(b) or b.get("k") == "Ret":
                        bs, bt = _as_stmts(b)
                        s2, t2 = elim_block(bs, bt, like, ty)
                    else:
                        bs, bt = _as_stmts(b)
                        s2, t2 = elim_block(bs + [dict(st, init=bt if bt is not None else _unit(like))] + rest, tail, like, ty)
                    brs[key] = _block(s2, t2, like, ty)
                return head, dict(init, then=brs["then"], **{"else": brs["else"]}, ty=ty)
            if els is None and init is not None and init.get("k") == "Block" and not init.get("label"):
                bs, bt = _as_stmts(init)
                s2, t2 = elim_block(bs + [dict(st, init=bt if bt is not None else _unit(like))] + rest, tail, like, ty)
                return head + s2, t2
            raise Cannot("return inside a let initialiser (%s)" % (init or {}).get("k"))
        e0 = e
        if e0.get("k") == "Ret":
            v = e0.get("e")
            if v is not None and _has_ret(v):
                raise Cannot("nested return")
            return head, (v if v is not None else _unit(like))
        if e0.get("k") == "If":
            if _has_ret(e0["cond"]):
                raise Cannot("return in a condition")
            ts, tt = _as_stmts(e0["then"])
            fs, ft = _as_stmts(e0.get("else"))
            t_div = hir.diverges(e0["then"])
            f_div = e0.get("else") is not None and hir.diverges(e0["else"])
            if tt is not None and not t_div:
                ts, tt = ts + [{"k": "SSemi", "e": tt}], None
            if ft is not None and not f_div:
                fs, ft = fs + [{"k": "SSemi", "e": ft}], None
            s1, t1 = elim_block(ts + ([] if t_div else rest), tt if t_div else tail, like, ty)
            s2, t2 = elim_block(fs + ([] if f_div else rest), ft if f_div else tail, like, ty)
            return head, dict(e0, then=_block(s1, t1, like, ty), **{"else": _block(s2, t2, like, ty)}, ty=ty)
        if e0.get("k") == "Match":
            if _has_ret(e0["e"]):
                raise Cannot("return in a scrutinee")
            arms = []
            for a in e0["arms"]:
                bs, bt = _as_stmts(a["body"])
                div = hir.diverges(a["body"])
                if bt is not None and not div:
                    bs, bt = bs + [{"k": "SSemi", "e": bt}], None
                s1, t1 = elim_block(bs + ([] if div else rest), bt if div else tail, like, ty)
                arms.append(dict(a, body=_block(s1, t1, like, ty)))
            return head, dict(e0, arms=arms, ty=ty)
        if e0.get("k") == "Block" and not e0.get("label"):
            bs, bt = _as_stmts(e0)
            if bt is not None:
                bs = bs + [{"k": "SSemi", "e": bt}]
            s1, t1 = elim_block(bs + rest, tail, like, ty)
            return head + s1, t1
        raise Cannot("return inside %s" % e0.get("k"))
    if tail is not None and _has_ret(tail):
        return list(stmts), elim_value(tail, like, ty)
    return list(stmts), tail


def elim_value(e, like, ty):
    """expression in value position (its value is the function's value) with every `return x` turned into x"""
    if e is None or not _has_ret(e):
        return e
    k = e.get("k")
    if k == "Loop":
        raise Cannot("return inside a loop")
    if k in ("Use", "Type"):
        return dict(e, e=elim_value(e["e"], like, ty))
    if k == "Ret":
        v = e.get("e")
        return elim_value(v, like, ty) if v is not None else _unit(like)
    if k == "Block" and not e.get("label"):
        s1, t1 = elim_block(list(e.get("stmts") or []), e.get("expr"), like, ty)
        return _block(s1, t1, e, ty)
    if k == "If" and not _has_ret(e["cond"]):
        return dict(e, then=elim_value(e["then"], like, ty), **{"else": elim_value(e.get("else"), like, ty) if e.get("else") is not None else None}, ty=ty)
    if k == "Match" and not _has_ret(e["e"]):
        return dict(e, arms=[dict(a, body=elim_value(a["body"], like, ty)) for a in e["arms"]], ty=ty)
    let, did = _hoist_one(e)
    if not did:
        raise Cannot("return inside %s in value position" % k)
    s1, t1 = elim_block([let], e, like, ty)
    return _block(s1, t1, e, ty)


def _strip(n):
    while isinstance(n, dict) and n.get("k") in ("Use", "Type"):
        n = n["e"]
    return n


def _ctor_of(n):
    n = _strip(n)
    if isinstance(n, dict) and n.get("k") == "Call":
        c = hir.callee_of(n) or ""
        return c.rsplit("::", 1)[-1], n
    if isinstance(n, dict) and n.get("k") == "Path":
        return str((n.get("to") or {}).get("path") or "").rsplit("::", 1)[-1], n
    return None, n


def _err_type(ty):
    """`Result<T, E>` -> ("Result", E); `Option<T>` -> ("Option", None); else None"""
    ty = str(ty or "")
    if ty.startswith("std::option::Option<"):
        return ("Option", None)
    if ty.startswith("std::result::Result<") and ty.endswith(">"):
        inner = ty[len("std::result::Result<"):-1]
        depth = 0
        for i, ch in enumerate(inner):
            if ch in "<([":
                depth += 1
            elif ch in ">)]":
                depth -= 1
            elif ch == "," and depth == 0:
                return ("Result", inner[i + 1:].strip())
    return None


def body_for_try(fn_hir):
    """A fallible helper called as `helper(..)?` whose every `return` hands back a failure (`return Err(..)`, `bail!`, an inner
    `?`, `return None`): its statements can stand in the caller as they are - the early failure returns are then early failure
    returns of the caller, which is what `?` makes of them - and only the success value is needed.  Returns (stmts, tail value
    expression or None when the tail is not literally Ok(v)/Some(v), residual type) or raises Cannot.  Returns inside loops are
    fine here (nothing is eliminated)."""
    b = fn_hir["body"]
    rt = _err_type(b.get("ty"))
    if rt is None:
        raise Cannot("not a Result/Option function")
    want = "Err" if rt[0] == "Result" else "None"

    def rets(n, out):
        if isinstance(n, list):
            for x in n:
                rets(x, out)
            return
        if not isinstance(n, dict) or n.get("k") == "Closure":
            return
        if n.get("k") == "Ret":
            out.append(n)
        for key, v in n.items():
            if isinstance(v, (dict, list)) and key not in ("sp", "osp"):
                rets(v, out)
    found = []
    rets(b, found)
    for r in found:
        name, _ = _ctor_of(r.get("e"))
        if name not in (want, "from_residual"):
            raise Cannot("an early return that is not a failure")
    body = copy.deepcopy(b)
    stmts, tail = _as_stmts(body)
    if tail is None:
        raise Cannot("no tail value")
    name, node = _ctor_of(tail)
    ok = "Ok" if rt[0] == "Result" else "Some"
    if name == ok and node.get("k") == "Call" and len(node.get("args") or []) == 1:
        return stmts, node["args"][0], None, rt
    return stmts, None, tail, rt


def body_as_value(fn_hir, like):
    b = fn_hir["body"]
    ty = b.get("ty")
    if not _has_ret(b):
        return copy.deepcopy(b)
    s, t = _as_stmts(copy.deepcopy(b))
    s2, t2 = elim_block(s, t, like, ty)
    return _block(s2, t2, b, ty)


# ---------------------------------------------------------------------------
# HIR: expansion of one call

def _simple(n):
    """argument expressions that may be substituted for the parameter (pure, cheap, no evaluation-order issue)"""
    n0 = n
    while n0.get("k") in ("Use", "Type"):
        n0 = n0["e"]
    k = n0.get("k")
    if k == "Path" or k == "Lit":
        return True
    if k == "Field":
        return _simple(n0["e"])
    if k == "AddrOf":
        return _simple(n0["e"])
    if k == "Unary" and n0.get("op") == "Deref":
        return _simple(n0["e"])
    if k == "Cast":
        return _simple(n0["e"])
    return False


def _rename_tree(n, idmap, namemap, sp, tag):
    """deep-copied subtree: renumber local ids, rename colliding names, move every span to the call site"""
    if isinstance(n, list):
        for x in n:
            _rename_tree(x, idmap, namemap, sp, tag)
        return
    if not isinstance(n, dict):
        return
    if "sp" in n and sp is not None:
        n["osp"] = n["sp"]
        n["sp"] = sp
    if n.get("k") in ("PBind",) and "id" in n:
        n["id"] = idmap(n["id"])
        n["name"] = namemap.get(n["name"], n["name"])
    to = n.get("to")
    if isinstance(to, dict) and to.get("res") == "local":
        to["id"] = idmap(to["id"])
        to["name"] = namemap.get(to["name"], to["name"])
    if "k" in n and "inl" not in n:
        n["inl"] = tag
    for v in n.values():
        if isinstance(v, (dict, list)):
            _rename_tree(v, idmap, namemap, sp, tag)


def _subst_paths(n, sub):
    """replace Path nodes referring to substituted parameters (by renumbered id) with copies of the argument"""
    if isinstance(n, list):
        for i, x in enumerate(n):
            r = _subst_paths(x, sub)
            if r is not None:
                n[i] = r
        return None
    if not isinstance(n, dict):
        return None
    if n.get("k") == "Path" and isinstance(n.get("to"), dict) and n["to"].get("res") == "local" and n["to"]["id"] in sub:
        return copy.deepcopy(sub[n["to"]["id"]])
    for key, v in list(n.items()):
        if isinstance(v, (dict, list)):
            r = _subst_paths(v, sub)
            if r is not None:
                n[key] = r
    return None


def _local_names(fn_hir):
    names = set()

    def pats(p):
        for x in hir.pat_names(p):
            names.add(x)
    for p in fn_hir.get("params", []):
        pats(p["pat"])
    stack = [fn_hir["body"]]
    while stack:
        n = stack.pop()
        if isinstance(n, list):
            stack.extend(n)
            continue
        if not isinstance(n, dict):
            continue
        if n.get("k") == "PBind":
            names.add(n["name"])
        stack.extend(v for v in n.values() if isinstance(v, (dict, list)))
    return names


def _pos(sp, end=False):
    if not sp or len(sp) < 4:
        return (0, 0)
    return (sp[2], sp[3]) if end else (sp[0], sp[1])


_BIG = (10 ** 9, 0)


class _Names(dict):
    """caller-side names: name -> [first binding position, last use position].  A helper local needs a fresh name only when
    it would stand between a caller binding of that name and a later use of it."""

    @classmethod
    def of(cls, fn_hir):
        out = cls()
        for p in fn_hir.get("params", []):
            for x in hir.pat_names(p["pat"]):
                out[x] = [(0, 0), (0, 0)]
        stack = [fn_hir["body"]]
        while stack:
            n = stack.pop()
            if isinstance(n, list):
                stack.extend(n)
                continue
            if not isinstance(n, dict):
                continue
            if n.get("k") == "PBind":
                e = out.setdefault(n["name"], [_BIG, (0, 0)])
                e[0] = min(e[0], _pos(n.get("sp")))
            to = n.get("to")
            if n.get("k") == "Path" and isinstance(to, dict) and to.get("res") == "local":
                e = out.setdefault(to["name"], [_BIG, (0, 0)])
                e[1] = max(e[1], _pos(n.get("sp"), True))
            stack.extend(v for k_, v in n.items() if isinstance(v, (dict, list)) and k_ not in ("sp", "osp"))
        return out

    def clashes(self, name, sp):
        e = self.get(name)
        return e is not None and e[0] <= _pos(sp, True) and e[1] >= _pos(sp)

    def add(self, name, sp=None):
        e = self.setdefault(name, [_pos(sp), _pos(sp, True)])
        e[0] = min(e[0], _pos(sp))
        e[1] = max(e[1], _pos(sp, True))


class HirInliner:
    def __init__(self, bodies):
        self.bodies = bodies          # helper path -> (fn record, value body or None)
        self.counter = 0

    def expand_try(self, m, caller_names, targets=None):
        """`helper(..)?` where the helper could not be turned into a value (see body_for_try)"""
        if not (m.get("k") == "Match" and isinstance(m.get("e"), dict) and m["e"].get("k") == "Call"
                and str(hir.callee_of(m["e"]) or "").endswith("Try::branch") and len(m["e"].get("args") or []) == 1):
            return None, None
        call = _strip(m["e"]["args"][0])
        if not (isinstance(call, dict) and call.get("k") in ("Call", "MethodCall")):
            return None, None
        c = hir.callee_of(call)
        if targets is not None and c not in targets:
            return None, None
        ent = self.bodies.get(c)
        if ent is None or len(ent) < 3 or ent[2] is None:
            return None, None
        stmts, value, tail, rt = ent[2]
        # the failure type handed on by `?` must be the helper's own (no From conversion in between)
        here = None
        for a in m.get("arms") or []:
            for n, _ in hir.walk(a["body"]):
                if n.get("k") == "Ret" and isinstance(n.get("e"), dict):
                    here = _err_type(n["e"].get("ty"))
        if here is None or here != rt:
            return None, None
        body = _block(stmts, value if value is not None else tail, call, (value or tail).get("ty"))
        blk = self.expand(call, c, caller_names, body=body)
        if blk is None:
            return None, None
        if value is not None:
            blk["ty"] = m.get("ty")
            return blk, c
        # the tail is some other fallible expression t: `{ S; t }?` is `{ S; t? }`
        inner = copy.copy(m)
        inner["e"] = dict(m["e"], args=[blk["expr"]])
        blk["expr"] = inner
        blk["ty"] = m.get("ty")
        return blk, c

    def expand(self, call, helper_path, caller_names, body=None):
        fn, value = self.bodies[helper_path][:2]
        if body is not None:
            value = body
        if value is None:
            return None
        self.counter += 1
        k = self.counter
        args = hir.call_args(call)
        params = fn["hir"]["params"]
        if len(args) != len(params):
            return None
        body = copy.deepcopy(value)
        pats = [copy.deepcopy(p["pat"]) for p in params]
        helper_names = _local_names(fn["hir"])
        namemap = {}
        for nm in helper_names:
            if (caller_names.clashes(nm, call.get("sp")) if isinstance(caller_names, _Names) else nm in caller_names):
                namemap[nm] = "%s'%d" % (nm, k)
        base = 1000000 * k

        def idmap(i):
            return base + i
        sp = call.get("sp")
        tag = helper_path
        _rename_tree(body, idmap, namemap, sp, tag)
        _rename_tree(pats, idmap, namemap, sp, tag)
        lets = []
        sub = {}
        for p, a in zip(pats, args):
            a0 = a
            is_ref_param = False
            if p.get("k") == "PBind" and "Mut" not in str(p.get("mode", "")).split(",")[-1] and _simple(a0):
                arg = a0
                # `&mut x` / `&x` handed to a reference parameter: method-call auto-(de)ref makes `x` equivalent inside the body
                while arg.get("k") in ("Use", "Type"):
                    arg = arg["e"]
                if arg.get("k") == "AddrOf":
                    arg = arg["e"]
                    if arg.get("k") == "Unary" and arg.get("op") == "Deref":
                        arg = arg["e"]
                sub[p["id"]] = arg
                # the original (un-renamed) name is what rules see when the argument is a plain local: nothing to do
            else:
                lets.append({"k": "SLet", "pat": p, "init": a, "els": None, "sp": sp, "inl": tag})
        _subst_paths(body, sub)
        for l in lets:
            pass
        for nm in helper_names:
            if isinstance(caller_names, _Names):
                caller_names.add(namemap.get(nm, nm), sp)
            else:
                caller_names.add(namemap.get(nm, nm))
        bs, bt = _as_stmts(body)
        out = {"k": "Block", "stmts": lets + bs, "expr": bt, "unsafe": None, "label": None, "ty": call.get("ty"), "sp": sp,
               "inl": tag, "inlined_call": helper_path}
        if "mac" in call:
            out["mac"] = call["mac"]
        return out

    def rewrite(self, n, targets, caller_names, done):
        """bottom-up rewrite of every call to a target helper inside n; returns replacement or None"""
        if isinstance(n, list):
            for i, x in enumerate(n):
                r = self.rewrite(x, targets, caller_names, done)
                if r is not None:
                    n[i] = r
            return None
        if not isinstance(n, dict):
            return None
        if n.get("k") == "Match":
            # `helper(..)?` first: the helper's statements with its failure returns kept (before the call itself is looked at)
            rep, c = self.expand_try(n, caller_names, targets)
            if rep is not None:
                done.append(c)
                self.rewrite(rep, targets, caller_names, done)      # helper calls inside the arguments
                return rep
        for key, v in list(n.items()):
            if isinstance(v, (dict, list)) and key not in ("sp", "osp"):
                r = self.rewrite(v, targets, caller_names, done)
                if r is not None:
                    n[key] = r
        if n.get("k") in ("Call", "MethodCall"):
            c = hir.callee_of(n)
            if c in targets:
                rep = self.expand(n, c, caller_names)
                if rep is not None:
                    done.append(c)
                    # an expression statement `helper(..);` keeps its SSemi wrapper (handled by the parent)
                    return rep
        return None


# ---------------------------------------------------------------------------
# HIR: unrolling of `for PAT in [literal, array]` (used on demand by rules whose oracle is per element)

def _bound_ids(n):
    out = []
    stack = [n]
    while stack:
        x = stack.pop()
        if isinstance(x, list):
            stack.extend(x)
        elif isinstance(x, dict):
            if x.get("k") == "PBind" and "id" in x:
                out.append(x["id"])
            stack.extend(v for v in x.values() if isinstance(v, (dict, list)))
    return out


def _rename_bound(n, idmap, namemap, ids):
    if isinstance(n, list):
        for x in n:
            _rename_bound(x, idmap, namemap, ids)
        return
    if not isinstance(n, dict):
        return
    if n.get("k") == "PBind" and n.get("id") in ids:
        n["name"] = namemap.get(n["name"], n["name"])
        n["id"] = idmap(n["id"])
    to = n.get("to")
    if isinstance(to, dict) and to.get("res") == "local" and to.get("id") in ids:
        to["name"] = namemap.get(to["name"], to["name"])
        to["id"] = idmap(to["id"])
    for key, v in n.items():
        if isinstance(v, (dict, list)) and key != "to":
            _rename_bound(v, idmap, namemap, ids)


def _const_array_elems(path, F, like):
    """literal element nodes for a const array of integers or of integer tuples (`[(i8, i8); 4]`), from its evaluated bytes"""
    import re as _re
    c = F.consts.get(path) if F is not None else None
    if not c:
        return None
    m = _re.fullmatch(r"\[(.+); (\d+)\]", c["ty"].strip())
    if not m:
        return None
    elem_ty, n = m.group(1).strip(), int(m.group(2))
    W = {"i8": 1, "u8": 1, "i16": 2, "u16": 2, "i32": 4, "u32": 4, "i64": 8, "u64": 8, "usize": 8, "isize": 8}
    comps = [elem_ty] if elem_ty in W else ([x.strip() for x in elem_ty[1:-1].split(",")] if elem_ty.startswith("(") and elem_ty.endswith(")") else None)
    if not comps or any(x not in W for x in comps):
        return None
    try:
        b = F.const_bytes(path)
    except Exception:
        return None
    size = sum(W[x] for x in comps)
    if len(comps) > 1:
        # tuple layout: components of equal width only (no padding questions)
        if len({W[x] for x in comps}) != 1:
            return None
    if len(b) != size * n:
        return None
    out = []
    off = 0
    for _ in range(n):
        lits = []
        for x in comps:
            v = int.from_bytes(b[off:off + W[x]], "little", signed=x.startswith("i"))
            off += W[x]
            lits.append({"k": "Lit", "lk": "int", "v": v, "ty": x, "sp": like.get("sp")})
        out.append(lits[0] if len(comps) == 1 and not elem_ty.startswith("(") else {"k": "Tup", "elems": lits, "ty": elem_ty, "sp": like.get("sp")})
    return out


def _guard_continues(body):
    """`{ a; if c { continue; } rest }` as a loop body is `{ a; if c {} else { rest } }`: the `continue` guards of the top level of the
    body (the usual way to skip an element) are turned into structure so that the body can be written out per element."""
    b0 = _strip(body)
    if b0.get("k") != "Block" or b0.get("label"):
        return body
    stmts = list(b0.get("stmts") or [])
    for i, st in enumerate(stmts):
        e = _strip(st["e"]) if st.get("k") == "SSemi" else _strip(st)
        if e.get("k") == "If" and e.get("else") is None:
            ts, tt = _as_stmts(e["then"])
            only = [x for x in ts + ([tt] if tt is not None else [])]
            if len(only) == 1 and _strip(only[0]["e"] if only[0].get("k") == "SSemi" else only[0]).get("k") == "Continue" \
                    and not _strip(only[0]["e"] if only[0].get("k") == "SSemi" else only[0]).get("label"):
                rest = _guard_continues(_block(stmts[i + 1:], b0.get("expr"), b0, "()"))
                node = dict(e, then=_block([], None, e, "()"), **{"else": rest})
                return dict(b0, stmts=stmts[:i] + [node], expr=None)
    return body


def unroll_literal_loops(fn_hir, limit=16, F=None):
    """Deep copy of fn_hir in which every `for PAT in ARRAY { body }` whose ARRAY is an array literal (directly, or a
    single-assignment local initialised with one) of at most `limit` elements and whose body contains no break/continue
    is replaced by `{ { let PAT = e1; body } { let PAT = e2; body } ... }` with fresh local ids per copy."""
    h = copy.deepcopy(fn_hir)
    env = hir.Env(h, None)
    counter = [0]

    def array_of(e):
        e0 = hir.strip(e)
        if e0.get("k") == "Call" and str(hir.callee_of(e0) or "").endswith("IntoIterator::into_iter") and e0.get("args"):
            e0 = hir.strip(e0["args"][0])
        if e0.get("k") == "Path" and e0["to"].get("res") == "local" and env.is_single(e0["to"]["id"]):
            e0 = hir.strip(env.defs[e0["to"]["id"]])
        if e0.get("k") == "Array" and 0 < len(e0["elems"]) <= limit:
            return e0["elems"]
        if e0.get("k") == "Path" and e0["to"].get("res") == "def" and "Const" in str(e0["to"].get("dk", "")):
            el = _const_array_elems(e0["to"]["path"], F, e0)
            if el is not None and 0 < len(el) <= limit:
                return el
        return None

    def rewrite(n):
        if isinstance(n, list):
            for i, x in enumerate(n):
                r = rewrite(x)
                if r is not None:
                    n[i] = r
            return None
        if not isinstance(n, dict):
            return None
        for key, v in list(n.items()):
            if isinstance(v, (dict, list)) and key not in ("sp", "osp"):
                r = rewrite(v)
                if r is not None:
                    n[key] = r
        if n.get("k") == "Match" and n.get("src") == "ForLoopDesugar":
            elems = array_of(n["e"])
            if elems is None:
                return None
            loop = None
            for c, _ in hir.walk(n):
                if c.get("k") == "Loop":
                    loop = c
                    break
            inner = None
            for c, _ in hir.walk(loop):
                if c.get("k") == "Match" and c.get("src") == "ForLoopDesugar" and c is not n:
                    inner = c
                    break
            if inner is None:
                return None
            def payload(p_):
                if p_.get("k") == "PTupleStruct" and len(p_.get("pats") or ()) == 1:
                    return p_["pats"][0]
                if p_.get("k") == "PStruct" and len(p_.get("fields") or ()) == 1:
                    return p_["fields"][0]["pat"]
                return None
            some = [a for a in inner["arms"] if payload(a["pat"]) is not None]
            if len(some) != 1:
                return None
            pat, body = payload(some[0]["pat"]), some[0]["body"]
            body = _guard_continues(body)
            for c, anc_ in hir.walk(body):
                nested = any(a_.get("k") == "Loop" for a_ in anc_)
                if not nested and (c.get("k") == "Continue" or (c.get("k") == "Break" and "ForLoop" not in str(c.get("mac", "")))):
                    return None
            copies = []
            for el in elems:
                counter[0] += 1
                k = counter[0]
                b2, p2 = copy.deepcopy(body), copy.deepcopy(pat)
                inner_ids = set(_bound_ids(b2)) | set(_bound_ids(p2))
                names = {nm: "%s'u%d" % (nm, k) for nm in _local_names({"params": [], "body": b2}) | set(hir.pat_names(p2))}
                base = 5000000 + 10000 * k
                idm = (lambda i, base=base, inner_ids=inner_ids: base + i if i in inner_ids else i)
                # names are renamed only for locals bound inside the copy
                _rename_bound(b2, idm, names, inner_ids)
                _rename_bound(p2, idm, names, inner_ids)
                let = {"k": "SLet", "pat": p2, "init": copy.deepcopy(el), "els": None, "sp": n.get("sp")}
                bs, bt = _as_stmts(b2)
                if bt is not None:
                    bs = bs + [{"k": "SSemi", "e": bt}]
                copies.append({"k": "Block", "stmts": [let] + bs, "expr": None, "unsafe": None, "label": None, "ty": "()", "sp": n.get("sp"),
                               "unrolled": True})
            return {"k": "Block", "stmts": copies, "expr": None, "unsafe": None, "label": None, "ty": "()", "sp": n.get("sp"), "unrolled": True}
        return None
    r = rewrite(h["body"])
    if r is not None:
        h["body"] = r
    return h


# ---------------------------------------------------------------------------
# MIR

def _map_place(pl, lmap):
    pl["l"] = lmap(pl["l"])
    for pr in pl.get("p") or ():
        if isinstance(pr, dict) and "idx" in pr:
            pr["idx"] = lmap(pr["idx"])


def _map_operand(op, lmap):
    if isinstance(op, dict) and op.get("k") in ("copy", "move"):
        _map_place(op["place"], lmap)


def _map_rvalue(rv, lmap):
    for key in ("op", "a", "b"):
        if key in rv:
            _map_operand(rv[key], lmap)
    if "place" in rv:
        _map_place(rv["place"], lmap)
    for o in rv.get("ops") or ():
        _map_operand(o, lmap)


def inline_mir_call(caller, b, callee_fn, tag):
    cm = caller["mir"]
    hm = callee_fn["mir"]
    t = cm["blocks"][b]["term"]
    base = len(cm["locals"])
    off = len(cm["blocks"])
    span = t.get("span")
    existing = {l.get("name") for l in cm["locals"] if l.get("name")}

    def lmap(l):
        return base + l

    def bmap(x):
        return None if x is None else off + x
    for l in hm["locals"]:
        l2 = copy.deepcopy(l)
        if l2.get("name") and l2["name"] in existing:
            l2["name"] = "%s'%s" % (l2["name"], tag.split("::")[-1])
        l2["span"] = span
        l2["inl"] = tag
        cm["locals"].append(l2)
    for d in hm.get("debug") or ():
        d2 = copy.deepcopy(d)
        if "place" in d2:
            _map_place(d2["place"], lmap)
        if d2.get("name") in existing:
            d2["name"] = "%s'%s" % (d2["name"], tag.split("::")[-1])
        cm["debug"].append(d2)
    # argument passing
    pre = []
    for i, a in enumerate(t["args"]):
        tyl = hm["locals"][1 + i]["ty"] if 1 + i < len(hm["locals"]) else None
        pre.append({"k": "Assign", "place": {"l": base + 1 + i, "p": None, "ty": tyl}, "rv": {"k": "Use", "op": copy.deepcopy(a)}, "span": span,
                    "inl": tag})
    dest, target, unwind = t["dest"], t.get("target"), t.get("unwind")
    for hb in hm["blocks"]:
        nb = copy.deepcopy(hb)
        for s in nb["stmts"]:
            if "span" in s:
                s["ospan"] = s["span"]
                s["span"] = span
            s["inl"] = tag
            if s["k"] in ("Assign", "SetDiscriminant"):
                _map_place(s["place"], lmap)
                if "rv" in s:
                    _map_rvalue(s["rv"], lmap)
            elif s["k"] in ("StorageLive", "StorageDead"):
                s["l"] = lmap(s["l"])
        tt = nb["term"]
        tt["inl"] = tag
        if "span" in tt:
            tt["ospan"] = tt["span"]
            tt["span"] = span
        k = tt["k"]
        if k == "Goto":
            tt["target"] = bmap(tt["target"])
        elif k == "SwitchInt":
            _map_operand(tt["discr"], lmap)
            tt["targets"] = [[v, bmap(x)] for v, x in tt["targets"]]
            tt["otherwise"] = bmap(tt["otherwise"])
        elif k == "Drop":
            _map_place(tt["place"], lmap)
            tt["target"] = bmap(tt["target"])
            tt["unwind"] = bmap(tt.get("unwind"))
        elif k in ("Call", "TailCall"):
            _map_operand(tt.get("func"), lmap)
            for a in tt["args"]:
                _map_operand(a, lmap)
            if k == "Call":
                _map_place(tt["dest"], lmap)
                tt["target"] = bmap(tt.get("target"))
                tt["unwind"] = bmap(tt.get("unwind"))
                tt["file"] = t.get("file", tt.get("file"))
                if "fn_span" in tt:
                    tt["fn_span"] = t.get("fn_span", tt["fn_span"])
        elif k == "Assert":
            _map_operand(tt["cond"], lmap)
            for o in tt.get("ops") or ():
                _map_operand(o, lmap)
            tt["target"] = bmap(tt["target"])
            tt["unwind"] = bmap(tt.get("unwind"))
        elif k == "Return":
            nb["stmts"].append({"k": "Assign", "place": copy.deepcopy(dest), "rv": {"k": "Use", "op": {"k": "move", "place": {"l": base, "p": None, "ty": hm["locals"][0]["ty"]}}},
                                "span": span, "inl": tag})
            nb["term"] = {"k": "Goto", "target": target, "inl": tag} if target is not None else {"k": "Unreachable", "span": span, "inl": tag}
        elif k == "UnwindResume":
            if unwind is not None:
                nb["term"] = {"k": "Goto", "target": unwind, "inl": tag}
        cm["blocks"].append(nb)
    blk = cm["blocks"][b]
    blk["stmts"] = blk["stmts"] + pre
    blk["term"] = {"k": "Goto", "target": off, "inl": tag, "inlined_call": tag, "span": span}


# ---------------------------------------------------------------------------
# driver

def _callees(fn):
    out = set()
    m = fn.get("mir")
    if not m:
        return out
    for blk in m["blocks"]:
        t = blk["term"]
        if t["k"] in ("Call", "TailCall") and t.get("callee"):
            out.add(t["callee"])
    return out


try:
    KNOWN_ADTS = json.load(open(os.path.join(HERE, "known_adts.json")))
except Exception:
    KNOWN_ADTS = {}


def _shape(variants, self_path, as_path):
    """comparable shape of an ADT: per variant (discriminant, field types with the type's own path normalised)"""
    out = []
    for v in variants:
        flds = v.get("fields", [])
        tys = []
        for f in flds:
            ty = f[1] if isinstance(f, (list, tuple)) else f.get("ty")
            tys.append(str(ty).replace(self_path, as_path))
        out.append((v.get("discr"), tuple(tys)))
    return out


def alias_adts(data):
    """A type of the reference tree that was renamed (or whose variants / fields were renamed) is given its old names back:
    matched by shape - same kind, same discriminants, same field types in the same order - when the match is unique."""
    import re as _re
    have = {a["path"]: a for a in data["adts"]}
    type_map, var_map, field_map = {}, {}, {}     # new path -> old path ; (old path, new var) -> old var ; (old path, new field) -> old field
    new_adts = [a for p_, a in have.items() if p_ not in KNOWN_ADTS]
    for old, k in KNOWN_ADTS.items():
        cand = None
        if old in have:
            cand = have[old]
        else:
            want = _shape(k["variants"], old, "@")
            cs = [a for a in new_adts if a.get("kind") == k["kind"] and _shape(a.get("variants", []), a["path"], "@") == want and a["path"] not in type_map]
            if len(cs) == 1:
                cand = cs[0]
                type_map[cand["path"]] = old
        if cand is None:
            continue
        kv, cv = k["variants"], cand.get("variants", [])
        if len(kv) != len(cv):
            continue
        for a_, b_ in zip(kv, cv):
            if a_["name"] != b_["name"] and k["kind"] == "enum":
                var_map[(old, b_["name"])] = a_["name"]
            fa, fb = a_["fields"], b_.get("fields", [])
            if len(fa) == len(fb):
                for x, y in zip(fa, fb):
                    yn = y[0] if isinstance(y, (list, tuple)) else y.get("name")
                    if x[0] != yn:
                        field_map[(old, yn)] = x[0]
    if not (type_map or var_map or field_map):
        return data
    txt = json.dumps(data)
    for newp, old in sorted(type_map.items(), key=lambda kv_: -len(kv_[0])):
        txt = _re.sub(r"(?<![A-Za-z0-9_:])" + _re.escape(newp) + r"(?![A-Za-z0-9_])", old, txt)
    for (old, nv), ov in var_map.items():
        txt = _re.sub(r"(?<![A-Za-z0-9_:])" + _re.escape(old + "::" + nv) + r"(?![A-Za-z0-9_])", old + "::" + ov, txt)
    data = json.loads(txt)
    # bare variant / field names
    all_fields = {}
    for a in data["adts"]:
        for v in a.get("variants", []):
            for f in v.get("fields", []):
                all_fields.setdefault(f.get("name"), set()).add(a["path"])
    vnames = {}
    for (old, nv), ov in var_map.items():
        vnames.setdefault(nv, []).append((old, ov))

    def base_ty(t):
        t = str(t or "").strip()
        while t.startswith("&"):
            t = t[1:].strip()
            if t.startswith("mut "):
                t = t[4:].strip()
        return t

    def fix(n):
        if isinstance(n, list):
            for x in n:
                fix(x)
            return
        if not isinstance(n, dict):
            return
        # MIR aggregates / ADT tables
        if "variant" in n and isinstance(n.get("variant"), str):
            cands = vnames.get(n["variant"])
            if cands and (n.get("adt") in [c[0] for c in cands] or (n.get("adt") is None and len(cands) == 1)):
                n["variant"] = [c[1] for c in cands if n.get("adt") in (None, c[0])][0]
        if n.get("k") == "Field" and isinstance(n.get("e"), dict):
            key = (base_ty(n["e"].get("ty")), n.get("name"))
            if key in field_map:
                n["name"] = field_map[key]
        if n.get("k") in ("Struct", "PStruct") and isinstance(n.get("to"), dict):
            tp = n["to"].get("ctor_of") or n["to"].get("path") or ""
            owner = tp
            for f in n.get("fields") or ():
                for o_ in (owner, owner.rsplit("::", 1)[0]):
                    if (o_, f.get("name")) in field_map:
                        f["name"] = field_map[(o_, f["name"])]
                        break
        if "f" in n and "i" in n and isinstance(n.get("f"), str):
            # MIR field projection: rename when the new field name belongs to exactly one (renamed) type
            owners = [o_ for (o_, nf) in field_map if nf == n["f"]]
            if len(owners) == 1 and all_fields.get(n["f"], set()) <= {owners[0]} | set(type_map):
                n["f"] = field_map[(owners[0], n["f"])]
        if isinstance(n.get("fields"), list) and n.get("adt") and all(isinstance(x, str) for x in n["fields"]):
            n["fields"] = [field_map.get((n["adt"], x), x) for x in n["fields"]]
        if "name" in n and "discr" in n and isinstance(n.get("name"), str):
            pass
        for v in n.values():
            if isinstance(v, (dict, list)):
                fix(v)
    fix(data["fns"])
    for a in data["adts"]:
        for v in a.get("variants", []):
            if (a["path"], v["name"]) in var_map:
                v["name"] = var_map[(a["path"], v["name"])]
            for f in v.get("fields", []):
                if (a["path"], f.get("name")) in field_map:
                    f["name"] = field_map[(a["path"], f["name"])]
    data["renamed_types"] = {"types": type_map, "variants": {"%s::%s" % k_: v_ for k_, v_ in var_map.items()},
                             "fields": {"%s.%s" % k_: v_ for k_, v_ in field_map.items()}}
    return data


def _summary_text(fn, F):
    """A spelling-independent fingerprint of a small loop-free function: its return value and the fields it stores, with
    its parameters numbered (used to recognise a renamed anchor by what it does)."""
    h = fn.get("hir")
    if not h:
        return None
    try:
        ex = hir.Exec(h, F)
        r = ex.run()
    except Exception:
        return None
    names = {}
    for i, p_ in enumerate(h.get("params", [])):
        if p_["pat"].get("k") == "PBind":
            names[("var", p_["pat"]["name"])] = ("var", "#%d" % i)
    eff = sorted((k[2], hir.fmt(hir.subst(v, names), 400)) for k, v in ex.store.items() if isinstance(k, tuple) and k[0] == "fieldstore")
    t = hir.fmt(hir.subst(r, names), 600) + " | " + repr(eff)
    return t if len(t) < 1500 else None


def summaries_of(F, paths):
    out = {}
    for p_ in paths:
        if p_ in F.fns:
            t = _summary_text(F.fns[p_], F)
            if t and t != "() | []":
                out[p_] = t
    return out


try:
    KNOWN_SUMMARIES = json.load(open(os.path.join(HERE, "known_summaries.json")))
except Exception:
    KNOWN_SUMMARIES = {}


def alias_renamed(data, known):
    """An anchored function that is gone while exactly one new function can be it - same name in another module (moved), or
    same owner type and identical signature under another name (renamed) - is given its old path back everywhere in the facts.
    Returns the fact dict (possibly re-parsed) and records data['renamed'] = {old: new}."""
    have = {f["path"] for f in data["fns"]}
    missing = sorted(k for k in known if k not in have)
    if not missing:
        return data
    new = [f for f in data["fns"] if f["kind"] in ("Fn", "AssocFn") and f["path"] not in known]
    ren = {}
    taken = set()
    for k in missing:
        last = k.rsplit("::", 1)[-1]
        owner = k.rsplit("::", 1)[0] if "::" in k else ""
        c1 = [f for f in new if f["path"].rsplit("::", 1)[-1] == last and f["path"] not in taken]
        pick = None
        if len(c1) == 1:
            pick = c1[0]
        else:
            sig = KNOWN_SIGS.get(k)
            c2 = [f for f in new if f["path"].rsplit("::", 1)[0] == owner and f["path"] not in taken and sig is not None
                  and [f.get("inputs"), f.get("output")] == sig[:2]]
            if len(c2) == 1:
                pick = c2[0]
            elif sig is not None:
                c3 = [f for f in new if f["path"] not in taken and [f.get("inputs"), f.get("output")] == sig[:2]]
                if len(c3) == 1:
                    pick = c3[0]
                elif len(c3) > 1 and k in KNOWN_SUMMARIES:
                    # several candidates with that signature (e.g. eight one-bit setters): the one that does the same thing
                    class _F:      # minimal facts view for Exec
                        fns = {f["path"]: f for f in data["fns"]}
                        consts = {c["path"]: c for c in data["consts"]}
                    c4 = [f for f in c3 if _summary_text(f, None) == KNOWN_SUMMARIES[k]]
                    if len(c4) == 1:
                        pick = c4[0]
        if pick is not None:
            ren[k] = pick["path"]
            taken.add(pick["path"])
    if not ren:
        return data
    txt = json.dumps(data)
    for old, newp in sorted(ren.items(), key=lambda kv: -len(kv[1])):
        txt = txt.replace(json.dumps(newp)[1:-1] + '"', json.dumps(old)[1:-1] + '"').replace(json.dumps(newp)[1:-1] + "::{", json.dumps(old)[1:-1] + "::{")
    data = json.loads(txt)
    data["renamed"] = ren
    return data


try:
    KNOWN_SIGS = json.load(open(os.path.join(HERE, "known_sigs.json")))
except Exception:
    KNOWN_SIGS = {}


def canon_params(data):
    """Parameters of an anchored function get the names they have on the reference tree (a renamed parameter is a renamed
    local: invisible to the compiler, and now to the rules as well)."""
    ren = {}
    for f in data["fns"]:
        sig = KNOWN_SIGS.get(f["path"])
        h = f.get("hir")
        if not sig or len(sig) < 3 or not h:
            continue
        cur = [(p_["pat"].get("name"), p_["pat"].get("id")) if p_["pat"].get("k") == "PBind" else (None, None) for p_ in h.get("params", [])]
        want = sig[2]
        if len(cur) != len(want):
            continue
        m = {}
        for (nm, lid), w in zip(cur, want):
            if nm is not None and w is not None and nm != w:
                m[lid] = (nm, w)
        if not m:
            continue
        # do not create a clash with another local of the same name
        taken = _local_names(h)
        m = {lid: v for lid, v in m.items() if v[1] not in taken or v[1] in [x[0] for x in m.values()]}
        if not m:
            continue

        def walk(n):
            if isinstance(n, list):
                for x in n:
                    walk(x)
                return
            if not isinstance(n, dict):
                return
            if n.get("k") == "PBind" and n.get("id") in m and n.get("name") == m[n["id"]][0]:
                n["name"] = m[n["id"]][1]
            to = n.get("to")
            if isinstance(to, dict) and to.get("res") == "local" and to.get("id") in m and to.get("name") == m[to["id"]][0]:
                to["name"] = m[to["id"]][1]
            for v in n.values():
                if isinstance(v, (dict, list)):
                    walk(v)
        walk(h)
        byname = {v[0]: v[1] for v in m.values()}
        mm = f.get("mir")
        if mm:
            for i, l in enumerate(mm["locals"][:mm["arg_count"] + 1]):
                if l.get("name") in byname:
                    l["name"] = byname[l["name"]]
            for d_ in mm.get("debug") or ():
                pl = d_.get("place") or {}
                if d_.get("name") in byname and pl.get("l", 10 ** 9) <= mm["arg_count"]:
                    d_["name"] = byname[d_["name"]]
        ren[f["path"]] = byname
    if ren:
        data.setdefault("inline_notes", []).append("parameters analysed under their anchor names: %s" % json.dumps(ren))
    return data


def _init_summary(e):
    """declaration-side description of an initialiser that mentions no local name"""
    e0 = _strip(e) if isinstance(e, dict) else None
    if not e0:
        return "-"
    k = e0.get("k")
    if k == "Lit":
        return "Lit:%r" % (e0.get("v"),)
    if k in ("Call", "MethodCall"):
        return "%s:%s" % (k, hir.callee_of(e0) or e0.get("name"))
    if k == "Struct":
        return "Struct:%s" % ((e0.get("to") or {}).get("path"))
    if k == "Path":
        to = e0.get("to") or {}
        return "Path:%s" % (to.get("path") if to.get("res") != "local" else "local")
    if k in ("Unary", "Binary", "AssignOp"):
        return "%s:%s" % (k, e0.get("op"))
    if k == "Repeat":
        return "Repeat:%s" % _init_summary(e0.get("e"))
    if k in ("AddrOf", "Cast", "Field", "Index"):
        return "%s(%s)" % (k, _init_summary(e0.get("e")))
    return str(k)


def local_bindings(fn_hir):
    """[(name, id, type, kind, detail)] for every binding of a function body (closures included, parameters excluded), in source
    order.  kind/detail describe the declaration only: a `let` with a summary of its initialiser, a pattern position (constructor
    path and index chain), a closure parameter - never how the name is used."""
    out = []

    def pat(p, kind, chain, detail):
        if not isinstance(p, dict):
            return
        k = p.get("k")
        if k == "PBind":
            out.append((p.get("name"), p.get("id"), str(p.get("ty")), kind, "%s|%s" % (chain, detail)))
            if p.get("sub"):
                pat(p["sub"], kind, chain + "@", detail)
            return
        ctor = str((p.get("to") or {}).get("path") or "")
        for i, s_ in enumerate(p.get("pats") or ()):
            pat(s_, kind, "%s/%s%s.%d" % (chain, k, ctor, i), detail)
        for f_ in p.get("fields") or ():
            pat(f_["pat"], kind, "%s/%s%s.%s" % (chain, k, ctor, f_["name"]), detail)
        if isinstance(p.get("pat"), dict):
            pat(p["pat"], kind, chain + "/&", detail)
        for key in ("before", "after"):
            for i, s_ in enumerate(p.get(key) or ()):
                pat(s_, kind, "%s/%s.%d" % (chain, key, i), detail)
        if isinstance(p.get("mid"), dict):
            pat(p["mid"], kind, chain + "/mid", detail)

    def walk(n):
        if isinstance(n, list):
            for x in n:
                walk(x)
            return
        if not isinstance(n, dict):
            return
        k = n.get("k")
        if k == "SLet":
            pat(n.get("pat"), "let", "", _init_summary(n.get("init")))
        elif k == "Let":
            pat(n.get("pat"), "iflet", "", _init_summary(n.get("init")))
        elif k == "Match":
            for a in n.get("arms") or ():
                pat(a.get("pat"), "arm:%s" % n.get("src"), "", _init_summary(n.get("e")))
        elif k == "Closure":
            for i, p_ in enumerate(n.get("params") or ()):
                pat(p_.get("pat", p_), "cparam%d" % i, "", "")
        for key, v in n.items():
            if isinstance(v, (dict, list)) and key not in ("sp", "osp", "pat", "params") and not (k == "Match" and key == "arms"):
                walk(v)
        if k == "Match":
            for a in n.get("arms") or ():
                walk(a.get("guard"))
                walk(a.get("body"))
    walk(fn_hir.get("body"))
    return out


try:
    KNOWN_LOCALS = json.load(open(os.path.join(os.path.dirname(os.path.abspath(__file__)), "known_locals.json")))
except Exception:
    KNOWN_LOCALS = {}

_NAME_SUFFIX = re.compile(r"'u?\d+$")


def canon_locals(data):
    """Locals of an anchored function get the names they have on the reference tree.  Only a name of the reference tree that has
    *disappeared* from the function is ever given back, and only to a new name whose bindings have exactly the same
    declaration-side signature (type, `let` initialiser kind / pattern position): a consistently renamed local is invisible to
    the compiler and now to the rules; a function in which every reference name is still present is left untouched."""
    fns = {f["path"]: f for f in data["fns"]}
    ren = {}
    for path, ref in KNOWN_LOCALS.items():
        f = fns.get(path)
        if not f or not f.get("hir") or f.get("kind") == "Closure":
            continue
        cur = local_bindings(f["hir"])
        params = set(hir.pat_names_all(f["hir"])) if hasattr(hir, "pat_names_all") else set()
        ref_names = {r[0] for r in ref}
        cur_names = {_NAME_SUFFIX.sub("", c[0]) for c in cur}
        missing = [m for m in dict.fromkeys(r[0] for r in ref) if m not in cur_names]
        new = [n for n in dict.fromkeys(_NAME_SUFFIX.sub("", c[0]) for c in cur) if n not in ref_names]
        if not missing or not new:
            continue

        def sig(entries, name, strip_suffix):
            return tuple(sorted((e[-3], e[-2], e[-1]) for e in entries if (_NAME_SUFFIX.sub("", e[0]) if strip_suffix else e[0]) == name))
        by_sig_m, by_sig_n = {}, {}
        for m in missing:
            by_sig_m.setdefault(sig(ref, m, False), []).append(m)
        for n in new:
            by_sig_n.setdefault(sig(cur, n, True), []).append(n)
        mapping = {}
        for sg, ns in by_sig_n.items():
            ms = by_sig_m.get(sg)
            if ms and len(ms) == len(ns):
                for n, m in zip(ns, ms):      # both in source order of first occurrence
                    mapping[n] = m
        if not mapping:
            continue
        ids = {c[1]: mapping[_NAME_SUFFIX.sub("", c[0])] for c in cur if _NAME_SUFFIX.sub("", c[0]) in mapping}

        def walk(n):
            if isinstance(n, list):
                for x in n:
                    walk(x)
                return
            if not isinstance(n, dict):
                return
            if n.get("k") == "PBind" and n.get("id") in ids and _NAME_SUFFIX.sub("", n.get("name") or "") in mapping:
                n["name"] = ids[n["id"]]
            to = n.get("to")
            if isinstance(to, dict) and to.get("res") == "local" and to.get("id") in ids and _NAME_SUFFIX.sub("", to.get("name") or "") in mapping:
                to["name"] = ids[to["id"]]
            for v in n.values():
                if isinstance(v, (dict, list)):
                    walk(v)
        walk(f["hir"])
        for q, g in fns.items():
            if g.get("kind") == "Closure" and q.startswith(path + "::{closure") and g.get("hir"):
                walk(g["hir"])
        for g in [f] + [g for q, g in fns.items() if g.get("kind") == "Closure" and q.startswith(path + "::{closure")]:
            mm = g.get("mir")
            if mm:
                for l in mm["locals"]:
                    if l.get("name") in mapping:
                        l["name"] = mapping[l["name"]]
                for d_ in mm.get("debug") or ():
                    if isinstance(d_, dict) and d_.get("name") in mapping:
                        d_["name"] = mapping[d_["name"]]
        ren[path] = mapping
    if ren:
        data.setdefault("inline_notes", []).append("locals analysed under their anchor names: %s" % json.dumps(ren))
    return data


try:
    KNOWN_ACCESSORS = json.load(open(os.path.join(HERE, "known_accessors.json")))
except Exception:
    KNOWN_ACCESSORS = {}


def canon_rights(data):
    """The twelve castling accessors of GameState (`white_king_castling()`, `set_.._true/false()`) are anchors of many rules.  When
    some of them no longer exist (one generic `can_castle(right)` / `revoke(right)` / `grant(right)` took their place), the bit
    operations the expanded replacements perform on `GameState.bitfield` are read back as calls of the reference accessor of
    that bit: `(s.bitfield & M) != 0` with M the literal one-bit mask of a right is `s.<right>_castling()`, `s.bitfield &= !M` is
    `s.set_<right>_castling_false()`, `s.bitfield |= M` is `..._true()`.  The mask is evaluated (constant folding of whatever
    computes it); which bit is which right is the reference layout, so an accessor API that moves a right to another bit shows
    up as the wrong right being read or written.  The missing accessors are then added back as they are on the reference tree."""
    acc = KNOWN_ACCESSORS.get("fns") or {}
    bits = KNOWN_ACCESSORS.get("bits") or {}
    if not acc or not bits:
        return data
    fns = {f["path"]: f for f in data["fns"]}
    missing = [p_ for p_ in acc if p_ not in fns]
    if not missing:
        return data
    by_mask = {1 << b: k for k, b in bits.items()}
    GS = "chess::gamestate::GameState::"

    class _F:
        pass
    shim = _F()
    shim.fns = fns
    shim.consts = {c["path"]: c for c in data["consts"]}
    shim.adts = {a["path"]: a for a in data.get("adts", [])}
    shim.d = data

    def const_bytes(path, _c=shim.consts):
        v = (_c[path].get("value") or {})
        h = v.get("bytes") or v.get("ptr_to_bytes")
        return bytes.fromhex(h)
    shim.const_bytes = const_bytes
    shim.const = lambda path: shim.consts[path]
    shim.const_int = lambda path: int.from_bytes(const_bytes(path), "little", signed=str(shim.consts[path]["ty"]).startswith("i"))
    n_rw = [0]

    def is_bitfield(n):
        n0 = _strip(n)
        return n0.get("k") == "Field" and n0.get("name") == "bitfield" and "GameState" in str(_strip(n0["e"]).get("ty", ""))

    def call(name, recv, ty, like):
        path = GS + name
        return {"k": "MethodCall", "name": name, "callee": path, "resolved": path, "recv": recv, "args": [], "ty": ty, "sp": like.get("sp"),
                "canon": "rights"}

    def rewrite_fn(h):
        sym = hir.Sym(hir.Env(h, None), None)

        def value(e):
            try:
                v = hir.fold(hir.resolve_consts(sym(e), shim), {})
            except Exception:
                return None
            return hir.sym_int(v)

        def rw(n):
            if isinstance(n, list):
                for i, x in enumerate(n):
                    r = rw(x)
                    if r is not None:
                        n[i] = r
                return None
            if not isinstance(n, dict):
                return None
            for key, v in list(n.items()):
                if isinstance(v, (dict, list)) and key not in ("sp", "osp"):
                    r = rw(v)
                    if r is not None:
                        n[key] = r
            k = n.get("k")
            if k == "AssignOp" and n.get("op") in ("&=", "|=") and is_bitfield(n["l"]):
                recv = _strip(n["l"])["e"]
                v = value(n["r"])
                if v is None:
                    return None
                if n["op"] == "|=" and v in by_mask:
                    n_rw[0] += 1
                    return call("set_%s_castling_true" % by_mask[v], recv, "()", n)
                if n["op"] == "&=" and ((~v) & 0xFF) in by_mask:
                    n_rw[0] += 1
                    return call("set_%s_castling_false" % by_mask[(~v) & 0xFF], recv, "()", n)
                return None
            if k == "Binary" and n.get("op") in ("!=", "=="):
                for a_, b_ in ((n["l"], n["r"]), (n["r"], n["l"])):
                    a0 = _strip(a_)
                    if a0.get("k") == "Binary" and a0.get("op") == "&" and value(b_) == 0:
                        for x_, m_ in ((a0["l"], a0["r"]), (a0["r"], a0["l"])):
                            if is_bitfield(x_) and value(m_) in by_mask:
                                n_rw[0] += 1
                                g = call("%s_castling" % by_mask[value(m_)], _strip(x_)["e"], "bool", n)
                                return g if n["op"] == "!=" else {"k": "Unary", "op": "Not", "e": g, "ty": "bool", "sp": n.get("sp")}
            return None
        r = rw(h["body"])
        if r is not None:
            h["body"] = r
    for f in data["fns"]:
        if f.get("hir") and f["path"] not in acc:
            rewrite_fn(f["hir"])
    for p_ in missing:
        data["fns"].append(copy.deepcopy(acc[p_]))
    data.setdefault("inline_notes", []).append(
        "castling accessors %s are gone: %d bit operations on GameState.bitfield read as calls of the reference accessor of that bit; "
        "the accessors themselves analysed as on the reference tree" % (sorted(x.rsplit("::", 1)[-1] for x in missing), n_rw[0]))
    return data


# ---------------------------------------------------------------------------
# HIR: a text iterator consumed by a fixed sequence of `next()` calls is read as positional access

STR_ITERS = ("core::str::<impl str>::bytes", "core::str::<impl str>::chars")


def _peel_ref(e):
    while isinstance(e, dict) and (e.get("k") in ("AddrOf", "DropTemps", "Use") or (e.get("k") == "Unary" and e.get("op") == "Deref")):
        e = e["e"]
    return e


def _all_binders(n, out):
    if isinstance(n, list):
        for x in n:
            _all_binders(x, out)
    elif isinstance(n, dict):
        if n.get("k") == "PBind" and "id" in n:
            out[n["id"]] = n
        for key, v in n.items():
            if isinstance(v, (dict, list)) and key not in ("sp", "osp", "to"):
                _all_binders(v, out)


def _branch_ctx(chain):
    """the conditional contexts on the way down `chain` (ancestors + node): ((id(node), which branch), ...), or None when the way
    passes through a loop or a closure"""
    ctx = []
    for p_, c in zip(chain, chain[1:]):
        k = p_.get("k")
        if k in ("Loop", "Closure", "While", "ForLoop"):
            return None
        if k == "If":
            if c is p_.get("then"):
                ctx.append((id(p_), "then"))
            elif c is p_.get("else"):
                ctx.append((id(p_), "else"))
        elif k == "Match":
            for i, a in enumerate(p_["arms"]):
                if c is a["body"] or c is a.get("guard"):
                    # a guard of arm i runs only if the patterns of the earlier arms (or their guards) failed: its own context
                    ctx.append((id(p_), i))
        elif k == "Binary" and p_.get("op") in ("&&", "||") and c is p_.get("r"):
            ctx.append((id(p_), "r"))
        elif k == "SLet" and c is p_.get("els"):
            ctx.append((id(p_), "els"))
    return tuple(ctx)


def linearize_iters(fn_hir, notes=None, path=""):
    """`let mut it = text.bytes(); a = it.next()?; b = it.next()?;` : when the iterator (and every `&mut` alias of it, e.g. the
    parameter of an expanded helper) is used for nothing but `next()` calls that lie on one straight line - each later call runs
    only after all earlier ones, no loop in between - the k-th call is `text.bytes().nth(k)` on a fresh iterator.  Anything else
    (a loop, a call in only one arm followed by one after the branch, the iterator handed to another function) leaves the code
    as it is.  Returns the number of iterators rewritten."""
    body = fn_hir.get("body")
    if not isinstance(body, dict):
        return 0
    binders = {}
    _all_binders(fn_hir, binders)
    lets = {}       # binder id -> (SLet node, ancestors)
    for n, anc in hir.walk(body):
        if n.get("k") == "SLet" and n.get("els") is None and isinstance(n.get("pat"), dict) and n["pat"].get("k") == "PBind" \
                and not n["pat"].get("sub") and n.get("init") is not None:
            lets[n["pat"]["id"]] = (n, anc)
    roots = {}
    for lid, (n, anc) in lets.items():
        e = _peel_ref(n["init"])
        if e.get("k") == "MethodCall" and e.get("callee") in STR_ITERS and not e.get("args"):
            base = _peel_ref(e["recv"])
            to = base.get("to") or {}
            if base.get("k") == "Path" and to.get("res") == "local":
                b = binders.get(to.get("id"))
                if b is not None and "Mut" not in str(b.get("mode", "")).split(",")[-1]:
                    roots[lid] = e
    if not roots:
        return 0
    alias = {r: r for r in roots}
    changed = True
    while changed:
        changed = False
        for lid, (n, anc) in lets.items():
            if lid in alias:
                continue
            e = _peel_ref(n["init"])
            to = e.get("to") or {}
            if e.get("k") == "Path" and to.get("res") == "local" and to.get("id") in alias:
                alias[lid] = alias[to["id"]]
                changed = True
    uses = {r: [] for r in roots}        # root -> [(call node, chain)]
    bad = set()
    for n, anc in hir.walk(body):
        to = n.get("to") or {}
        if n.get("k") == "Path" and to.get("res") == "local" and to.get("id") in alias:
            root = alias[to["id"]]
            # climb through & / * wrappers
            i = len(anc) - 1
            cur = n
            while i >= 0 and (anc[i].get("k") in ("AddrOf", "DropTemps", "Use") or (anc[i].get("k") == "Unary" and anc[i].get("op") == "Deref")) \
                    and anc[i].get("e") is cur:
                cur = anc[i]
                i -= 1
            par = anc[i] if i >= 0 else None
            if par is None:
                bad.add(root)
            elif par.get("k") == "SLet" and par.get("init") is cur and par["pat"].get("id") in alias and par["pat"]["id"] not in roots:
                pass        # the alias declaration itself
            elif par.get("k") == "MethodCall" and par.get("recv") is cur and par.get("name") == "next" and not par.get("args") \
                    and par.get("callee") == "std::iter::Iterator::next":
                uses[root].append((par, anc[:i] + (par,)))
            else:
                bad.add(root)
    done = 0
    for root, calls_ in uses.items():
        if root in bad or not calls_:
            continue
        let_node, let_anc = lets[root]
        blk = let_anc[-1] if let_anc else None
        ctxs = []
        ok = blk is not None
        for call, chain in calls_:
            if not ok:
                break
            idx = next((j for j, x in enumerate(chain) if x is blk), None)
            if idx is None:
                ok = False
                break
            c = _branch_ctx(chain[idx:])
            if c is None:
                ok = False
                break
            ctxs.append(c)
        if not ok:
            continue
        prev = ()
        for c in ctxs:
            if c[:len(prev)] != prev:
                ok = False
                break
            prev = c
        if not ok:
            continue
        for k, (call, chain) in enumerate(calls_):
            sp = call.get("sp") or call.get("osp")
            call["name"] = "nth"
            call["callee"] = "std::iter::Iterator::nth"
            call.pop("resolved", None)
            call["recv"] = copy.deepcopy(roots[root])
            call["args"] = [{"k": "Lit", "lk": "int", "v": k, "ty": "usize", "sp": sp}]
        done += 1
        if notes is not None:
            notes.append("%s: iterator `%s` consumed by %d straight-line next() calls read as positional access" %
                         (path, let_node["pat"].get("name"), len(calls_)))
    return done


def uniq_try_names(fn_hir):
    """the `val` / `residual` bindings of several expanded `?` can end up nested inside one another (the continuation of an expanded
    helper lives in the `Continue` arm): give each its own name so that value numbering by name cannot confuse them"""
    seen = {}
    stack = [fn_hir]
    pb = []
    while stack:
        x = stack.pop()
        if isinstance(x, list):
            stack.extend(x)
        elif isinstance(x, dict):
            if x.get("k") == "PBind" and x.get("name") in ("val", "residual") and x.get("inl") and "id" in x:
                pb.append(x)
            stack.extend(v for key, v in x.items() if isinstance(v, (dict, list)) and key not in ("sp", "osp"))
    if len(pb) < 2:
        return 0
    pb.sort(key=lambda x: x["id"])
    namemap = {}
    for i, x in enumerate(pb):
        namemap[x["id"]] = "%s_q%d" % (x["name"], i + 1)

    def ren(n):
        if isinstance(n, list):
            for y in n:
                ren(y)
        elif isinstance(n, dict):
            if n.get("k") == "PBind" and n.get("id") in namemap:
                n["name"] = namemap[n["id"]]
            to = n.get("to")
            if isinstance(to, dict) and to.get("res") == "local" and to.get("id") in namemap:
                to["name"] = namemap[to["id"]]
            for key, v in n.items():
                if isinstance(v, (dict, list)) and key not in ("sp", "osp", "to"):
                    ren(v)
    ren(fn_hir)
    return len(pb)


def apply(data, known=None):
    data = _apply(data, known)
    if not os.environ.get("VERIF_NO_LINEARIZE"):
        for f in data["fns"]:
            if f.get("hir") and f["kind"] != "Closure":
                uniq_try_names(f["hir"])
                linearize_iters(f["hir"], data.setdefault("inline_notes", []), f["path"])
    if KNOWN_ACCESSORS and not os.environ.get("VERIF_NO_CANON_RIGHTS"):
        data = canon_rights(data)
    if KNOWN_LOCALS and not os.environ.get("VERIF_NO_CANON_LOCALS"):
        data = canon_locals(data)
    return data


def _apply(data, known=None):
    """Mutates and returns the fact dict; adds data['inlined'] = {helper: [callers]} and data['inline_notes']."""
    known = known_fns() if known is None else known
    data.setdefault("inlined", {})
    data.setdefault("inline_notes", [])
    if known is None:
        data["inline_notes"].append("known_fns.json missing: no inlining")
        return data
    data = alias_adts(data)
    data = alias_renamed(data, known)
    data = canon_params(data)
    data.setdefault("inlined", {})
    data.setdefault("inline_notes", [])
    if data.get("renamed_types"):
        data["inline_notes"].append("renamed types/variants/fields analysed under their anchor names: %s" % json.dumps(data["renamed_types"]))
    for old, newp in (data.get("renamed") or {}).items():
        data["inline_notes"].append("anchor %s found as %s (moved/renamed): analysed under its anchor name" % (old, newp))
    fns = {f["path"]: f for f in data["fns"]}
    for f in data["fns"]:
        if f.get("hir") and f["kind"] != "Closure":
            nf = filter_loops(f["hir"]["body"])
            if nf:
                data["inline_notes"].append("%s: %d for-loop(s) over `.filter(..)` read as loops with a `continue` guard" % (f["path"], nf))
    cand = {p for p, f in fns.items() if f["kind"] in ("Fn", "AssocFn") and p not in known and f.get("mir") and f.get("hir")
            and not p.startswith("<") and p != "main"}
    if not cand:
        return data
    # closures belong to their parent for recursion purposes
    graph = {p: _callees(f) for p, f in fns.items()}
    for p, f in fns.items():
        if f["kind"] == "Closure" and f.get("parent") in graph:
            graph[f["parent"]] = graph[f["parent"]] | graph[p]

    def reaches(a, b, seen=None):
        # a cycle that passes through an anchored (never expanded) function ends there
        seen = seen or set()
        for c in graph.get(a, ()):
            if c == b:
                return True
            if c in fns and c in cand0 and c not in seen:
                seen.add(c)
                if reaches(c, b, seen):
                    return True
        return False
    cand0 = set(cand)
    rec = {p for p in cand if reaches(p, p)}
    for p in rec:
        data["inline_notes"].append("helper %s is recursive: not inlined" % p)
    cand -= rec
    # is the helper called at all?  (an unused new function stays what it is)
    called = set()
    for p in fns:
        called |= graph[p] & cand
    cand &= called
    if not cand:
        return data
    # order: helpers whose own helper calls are already expanded first
    order = []
    left = set(cand)
    while left:
        ready = [p for p in sorted(left) if not (graph[p] & (left - {p}))]
        if not ready:
            ready = [sorted(left)[0]]
        for p in ready:
            order.append(p)
            left.discard(p)
    hi = HirInliner({})
    expanded = set()
    for h in order:
        # expand previously processed helpers inside h first
        _expand_in(fns[h], expanded, fns, hi, data)
        try:
            tri = body_for_try(fns[h]["hir"])
        except Cannot as e2:
            tri = None
        try:
            val = body_as_value(fns[h]["hir"], fns[h]["hir"]["body"])
        except Cannot as e:
            val = None
            if tri is not None:
                data["inline_notes"].append("helper %s: expanded in HIR at its `?` call sites only (%s)" % (h, e))
            else:
                data["inline_notes"].append("helper %s: HIR not inlined (%s); MIR inlined" % (h, e))
        hi.bodies[h] = (fns[h], val, tri)
        expanded.add(h)
    for p, f in list(fns.items()):
        if p in expanded:
            continue
        _expand_in(f, expanded, fns, hi, data)
    # drop helpers that have no remaining direct call site
    remaining = set()
    for p, f in fns.items():
        if p in expanded:
            continue
        remaining |= _callees(f) & expanded
    gone = expanded - remaining
    # helpers whose HIR could not be expanded stay visible to dependence analyses (rules/common.dependence_nodes)
    data["helper_hir"] = {h: fns[h]["hir"] for h in expanded if hi.bodies.get(h, (None, None))[1] is None}
    data["fns"] = [f for f in data["fns"] if f["path"] not in gone]
    for h in sorted(remaining):
        data["inline_notes"].append("helper %s still has call sites that were not expanded" % h)
    return data


def expand_known(F, path, targets):
    """A copy of the anchored function `path` with its direct calls to the given (anchored) functions expanded in place - for rules
    whose oracle is stated on the combined code (e.g. `Position::add` forwarding to `Position::new`).  The facts are not changed."""
    f = copy.deepcopy(F.fn(path))
    present = [t for t in targets if t in F.fns and t != path]
    if not present:
        return f
    hi = HirInliner({})
    for t in present:
        try:
            val = body_as_value(F.fns[t]["hir"], F.fns[t]["hir"]["body"])
        except Cannot:
            val = None
        hi.bodies[t] = (F.fns[t], val)
    _expand_in(f, set(present), F.fns, hi, {"inlined": {}, "inline_notes": []})
    return f


def _splice(n):
    """An expanded helper used as a statement (`helper(..);`) becomes the helper's statements in the enclosing block, so that
    rules which read a function as a sequence of top-level statements see the same sequence as before the extraction."""
    if isinstance(n, list):
        for x in n:
            _splice(x)
        return
    if not isinstance(n, dict):
        return
    for key, v in n.items():
        if isinstance(v, (dict, list)) and key not in ("sp", "osp"):
            _splice(v)
    if n.get("k") in ("Block", "Loop") and n.get("stmts"):
        out = []
        for st in n["stmts"]:
            e = st.get("e") if st.get("k") == "SSemi" else st
            if isinstance(e, dict) and e.get("k") == "Block" and e.get("inlined_call") and not e.get("label"):
                out.extend(e.get("stmts") or [])
                if e.get("expr") is not None:
                    out.append({"k": "SSemi", "e": e["expr"]})
            elif st.get("k") == "SLet" and isinstance(st.get("init"), dict) and _strip(st["init"]).get("k") == "Block" \
                    and _strip(st["init"]).get("inlined_call") and not _strip(st["init"]).get("label") \
                    and _strip(st["init"]).get("expr") is not None and _strip(st["init"]).get("stmts"):
                # `let PAT = { helper statements; value };`  ==>  helper statements; `let PAT = value;`
                blk = _strip(st["init"])
                out.extend(blk["stmts"])
                out.append(dict(st, init=blk["expr"]))
            else:
                out.append(st)
        n["stmts"] = out
        sroa_block(n)


_SROA = [0]


def sroa_block(blk):
    """Scalar replacement of a struct-literal local inside one block: `let mut s = S { f: e, .. }` whose every use is a field
    projection `s.f` or one final by-value destructuring `let S { f: x, .. } = s` becomes one local per field (named after
    the destructuring binding when there is one, else after the field): the shape the code has without the carrier struct."""
    stmts = blk.get("stmts") or []
    for si, st in enumerate(stmts):
        if st.get("k") != "SLet" or st.get("els") is not None:
            continue
        pat = st.get("pat") or {}
        init = _strip(st.get("init")) if st.get("init") else None
        if pat.get("k") != "PBind" or pat.get("sub") is not None or not init or init.get("k") != "Struct" or init.get("base") is not None:
            continue
        sid = pat["id"]
        scope = {"k": "Block", "stmts": stmts[si + 1:], "expr": blk.get("expr")}
        uses = []       # (path node, parent)

        def find(n, parent):
            if isinstance(n, list):
                for x in n:
                    find(x, parent)
                return
            if not isinstance(n, dict):
                return
            if n.get("k") == "Path" and isinstance(n.get("to"), dict) and n["to"].get("res") == "local" and n["to"].get("id") == sid:
                uses.append((n, parent))
            for key, v in n.items():
                if isinstance(v, (dict, list)) and key not in ("sp", "osp"):
                    find(v, n if "k" in n else parent)
        find(scope, None)
        if not uses:
            continue
        field_uses, destr = [], []
        ok = True
        for u, par in uses:
            if par is not None and par.get("k") == "Field" and par.get("e") is u:
                field_uses.append(par)
            elif par is not None and par.get("k") == "SLet" and par.get("init") is u and par.get("els") is None \
                    and (par.get("pat") or {}).get("k") == "PStruct" \
                    and all(f["pat"].get("k") == "PWild" or (f["pat"].get("k") == "PBind" and f["pat"].get("sub") is None
                                                             and "Ref" not in str(f["pat"].get("mode"))) for f in par["pat"]["fields"]):
                destr.append(par)
            else:
                ok = False
        if not ok or len(destr) > 1:
            continue
        d = destr[0] if destr else None
        if d is not None and d not in stmts:
            continue     # destructured in a nested scope: leave it
        if d is not None and any(_pos(fu.get("sp")) > _pos(d.get("sp"), True) for fu in field_uses):
            continue
        bound = {f["name"]: f["pat"] for f in d["pat"]["fields"] if f["pat"].get("k") == "PBind"} if d is not None else {}
        new = {}
        lets = []
        for f in init["fields"]:
            b = bound.get(f["name"])
            if b is not None:
                lid, name = b["id"], b["name"]
            else:
                _SROA[0] += 1
                lid, name = 8000000 + _SROA[0], "%s.%s" % (pat["name"], f["name"])
            new[f["name"]] = (lid, name)
            lets.append({"k": "SLet", "pat": {"k": "PBind", "name": name, "id": lid, "mode": "BindingMode(No, Mut)", "sub": None,
                                              "ty": f["e"].get("ty"), "sp": st.get("sp")},
                         "init": f["e"], "els": None, "sp": st.get("sp")})
        if any(fu["name"] not in new for fu in field_uses):
            continue
        for fu in field_uses:
            lid, name = new[fu["name"]]
            keep = {k_: fu[k_] for k_ in ("ty", "sp", "osp", "inl", "mac") if k_ in fu}
            fu.clear()
            fu.update(keep)
            fu.update({"k": "Path", "to": {"res": "local", "name": name, "id": lid}})
        out = stmts[:si] + lets + [x for x in stmts[si + 1:] if x is not d]
        blk["stmts"] = out
        return sroa_block(blk)


def _has_bind(n):
    if isinstance(n, list):
        return any(_has_bind(x) for x in n)
    if not isinstance(n, dict):
        return False
    if n.get("k") == "PBind":
        return True
    return any(_has_bind(v) for k_, v in n.items() if isinstance(v, (dict, list)) and k_ not in ("sp", "osp"))


def _option_leaves(e, on_none, on_some, count):
    """rebuild expression e (whose value is an Option built on the spot) with every `None` leaf replaced by on_none() and every
    `Some(v)` leaf by on_some(v); count=[n_none, n_some] is filled on the way.  Raises Cannot on any other leaf."""
    e0 = _strip(e)
    k = e0.get("k")
    if k == "Block" and not e0.get("label") and e0.get("expr") is not None:
        return dict(e0, expr=_option_leaves(e0["expr"], on_none, on_some, count))
    if k == "If" and e0.get("else") is not None and not (isinstance(e0.get("cond"), dict) and e0["cond"].get("k") == "Let" and False):
        return dict(e0, then=_option_leaves(e0["then"], on_none, on_some, count), **{"else": _option_leaves(e0["else"], on_none, on_some, count)})
    if k == "Match" and e0.get("src") in (None, "Normal"):
        return dict(e0, arms=[dict(a, body=_option_leaves(a["body"], on_none, on_some, count)) for a in e0["arms"]])
    if k == "Ret" or k == "Continue" or k == "Break":
        return e0
    name, node = _ctor_of(e0)
    if name == "None" and node.get("k") == "Path":
        count[0] += 1
        return on_none()
    if name == "Some" and node.get("k") == "Call" and len(node.get("args") or []) == 1:
        count[1] += 1
        return on_some(node["args"][0])
    raise Cannot("leaf is not an Option constructor")


def _try_leaves(e, kind, fail, count):
    """value of `e?`: success leaves Some(v) / Ok(v) -> v; failure leaves None / Err(x) -> fail(leaf)"""
    e0 = _strip(e)
    k = e0.get("k")
    if k == "Block" and not e0.get("label") and e0.get("expr") is not None:
        return dict(e0, expr=_try_leaves(e0["expr"], kind, fail, count))
    if k == "If" and e0.get("else") is not None:
        return dict(e0, then=_try_leaves(e0["then"], kind, fail, count), **{"else": _try_leaves(e0["else"], kind, fail, count)})
    if k == "Match" and e0.get("src") in (None, "Normal"):
        return dict(e0, arms=[dict(a, body=_try_leaves(a["body"], kind, fail, count)) for a in e0["arms"]])
    if k in ("Ret", "Continue", "Break"):
        return e0
    name, node = _ctor_of(e0)
    ok, bad = ("Some", "None") if kind == "Option" else ("Ok", "Err")
    if name == ok and node.get("k") == "Call" and len(node.get("args") or []) == 1:
        count[1] += 1
        return node["args"][0]
    if name == bad and ((kind == "Option" and node.get("k") == "Path") or (kind == "Result" and node.get("k") == "Call")):
        count[0] += 1
        return fail(e0)
    raise Cannot("leaf is not built on the spot")


def _retype(n, ty):
    """the rebuilt control structure has the type of the `if let` it replaces"""
    n0 = n
    if isinstance(n0, dict) and n0.get("k") in ("Block", "If", "Match"):
        n0["ty"] = ty
        if n0["k"] == "Block" and n0.get("expr") is not None:
            _retype(n0["expr"], ty)
        elif n0["k"] == "If":
            _retype(n0["then"], ty)
            if n0.get("else") is not None:
                _retype(n0["else"], ty)
        elif n0["k"] == "Match":
            for a in n0["arms"]:
                _retype(a["body"], ty)


def case_of_case(n):
    """`if let Some(p) = { ..; if c { None } else { Some(v) } } { A } else { B }`  ==>  `{ ..; if c { B } else { let p = v; A } }`
    (an expanded Option-returning helper consumed on the spot): the shape the code has without the helper.  Only when A is not
    duplicated (one Some leaf) and B binds nothing.  Bottom-up over the tree; returns the replacement or None."""
    if isinstance(n, list):
        for i, x in enumerate(n):
            r = case_of_case(x)
            if r is not None:
                n[i] = r
        return None
    if not isinstance(n, dict):
        return None
    for key, v in list(n.items()):
        if isinstance(v, (dict, list)) and key not in ("sp", "osp"):
            r = case_of_case(v)
            if r is not None:
                n[key] = r
    if n.get("k") == "Match" and isinstance(n.get("e"), dict) and n["e"].get("k") == "Call" \
            and str(hir.callee_of(n["e"]) or "").endswith("Try::branch") and len(n["e"].get("args") or []) == 1:
        # `E?` with E an expanded helper whose value is built on the spot: Some(v) / Ok(v) leaves become v, failure leaves return
        e0 = _strip(n["e"]["args"][0])
        if not (isinstance(e0, dict) and e0.get("k") in ("Block", "If", "Match") and _contains_inl(e0)):
            return None
        here = None
        for a in n.get("arms") or []:
            for x, _ in hir.walk(a["body"]):
                if x.get("k") == "Ret" and isinstance(x.get("e"), dict):
                    here = (x, _err_type(x["e"].get("ty")))
        if here is None or here[1] is None or here[1] != _err_type(e0.get("ty")):
            return None
        ret_node, rt = here

        def fail(node):
            return {"k": "Ret", "e": node, "ty": "!", "sp": n.get("sp"), "mac": ret_node.get("mac")}
        count = [0, 0]
        try:
            out = _try_leaves(copy.copy(e0), rt[0], fail, count)
        except Cannot:
            return None
        if not count[1]:
            return None
        _retype(out, n.get("ty"))
        return out
    if n.get("k") != "If" or not isinstance(n.get("cond"), dict) or n["cond"].get("k") != "Let":
        return None
    pat, init = n["cond"].get("pat") or {}, n["cond"].get("init")
    if not (pat.get("k") == "PTupleStruct" and str((pat.get("to") or {}).get("path", "")).endswith("::Some") and len(pat.get("pats") or []) == 1):
        return None
    i0 = _strip(init)
    if not (isinstance(i0, dict) and i0.get("k") in ("Block", "If", "Match") and _contains_inl(i0)):
        return None
    B = n.get("else")
    if B is not None and _has_bind(B):
        return None
    A = n["then"]
    inner = pat["pats"][0]

    def on_none():
        return copy.deepcopy(B) if B is not None else _block([], None, n, "()")

    copies = [0]

    def on_some(v):
        # every Some leaf gets its own copy of the continuation (fresh ids for what the pattern and the continuation bind)
        copies[0] += 1
        pat_k, a_k = copy.deepcopy(inner), copy.deepcopy(A)
        ids = set(_bound_ids(pat_k)) | set(_bound_ids(a_k))
        if copies[0] > 1 and ids:
            base = 7000000 + 1000 * copies[0] + (id(n) % 997) * 100000
            _rename_bound(pat_k, lambda i: base + i, {}, ids)
            _rename_bound(a_k, lambda i: base + i, {}, ids)
        return _block([{"k": "SLet", "pat": pat_k, "init": v, "els": None, "sp": n.get("sp")}] + _as_stmts(a_k)[0], _as_stmts(a_k)[1], n, n.get("ty"))
    count = [0, 0]
    try:
        out = _option_leaves(copy.copy(i0), on_none, on_some, count)
    except Cannot:
        return None
    if count[1] < 1 or (count[1] > 1 and _has_bind(A)):
        return None          # the continuation is duplicated only when it binds nothing (`{ return x; }`)
    _retype(out, n.get("ty"))
    return out


def _contains_inl(n):
    if isinstance(n, list):
        return any(_contains_inl(x) for x in n)
    if not isinstance(n, dict):
        return False
    if n.get("inlined_call") or n.get("inl"):
        return True
    return any(_contains_inl(v) for k_, v in n.items() if isinstance(v, (dict, list)) and k_ not in ("sp", "osp"))


def filter_loops(n, notes=None):
    """`for PAT in it.filter(|q| c(q)) { body }`  ==>  `for PAT in it { if !c(PAT's binding) { continue; } body }` - what the adapter
    does, written as the guard the loop body would otherwise start with.  Only when PAT binds one name (x / &x / &mut x), which
    then stands for the closure parameter (reference levels do not matter to the rules).  In place; returns number rewritten."""
    cnt = 0
    if isinstance(n, list):
        return sum(filter_loops(x, notes) for x in n)
    if not isinstance(n, dict):
        return 0
    for key, v in n.items():
        if isinstance(v, (dict, list)) and key not in ("sp", "osp"):
            cnt += filter_loops(v, notes)
    if not (n.get("k") == "Match" and n.get("src") == "ForLoopDesugar" and isinstance(n.get("e"), dict) and n["e"].get("k") == "Call"
            and len(n["e"].get("args") or []) == 1 and len(n.get("arms") or []) == 1):
        return cnt
    it = _strip(n["e"]["args"][0])
    if not (it.get("k") == "MethodCall" and it.get("name") == "filter" and str(hir.callee_of(it) or "").endswith("Iterator::filter")
            and len(it.get("args") or []) == 1 and _strip(it["args"][0]).get("k") == "Closure"):
        return cnt
    clo = _strip(it["args"][0])
    if len(clo.get("params") or []) != 1 or not isinstance(clo.get("body"), dict):
        return cnt
    q = clo["params"][0]
    q = q.get("pat", q)
    while q.get("k") == "PRef":
        q = q["pat"]
    if q.get("k") != "PBind" or q.get("sub") is not None:
        return cnt
    lp = n["arms"][0]["body"]
    while isinstance(lp, dict) and lp.get("k") != "Loop":
        lp = lp.get("expr") if lp.get("k") == "Block" and not lp.get("stmts") else None
    if not lp or len(lp.get("stmts") or []) != 1 and lp.get("expr") is None:
        return cnt
    nx = _strip(lp["stmts"][0] if lp.get("stmts") else lp["expr"])
    if nx.get("k") == "SSemi":
        nx = _strip(nx["e"])
    if not (nx.get("k") == "Match" and str(hir.callee_of(nx.get("e") or {}) or "").endswith("Iterator::next")):
        return cnt
    def payload(p_):
        if p_.get("k") == "PTupleStruct" and len(p_.get("pats") or []) == 1:
            return p_["pats"][0]
        if p_.get("k") == "PStruct" and len(p_.get("fields") or []) == 1:       # the desugaring's `Some { 0: PAT }`
            return p_["fields"][0]["pat"]
        return None
    some = [a for a in nx["arms"] if payload(a["pat"]) is not None]
    if len(some) != 1:
        return cnt
    pat = payload(some[0]["pat"])
    while pat.get("k") == "PRef":
        pat = pat["pat"]
    if pat.get("k") != "PBind" or pat.get("sub") is not None:
        return cnt
    elem = {"k": "Path", "to": {"res": "local", "name": pat["name"], "id": pat["id"]}, "ty": pat.get("ty"), "sp": clo.get("sp")}
    cond = copy.deepcopy(clo["body"])
    wrap = {"w": cond}
    _subst_paths(wrap, {q["id"]: elem})
    cond = wrap["w"]
    sp = clo.get("sp")
    guard = {"k": "If", "cond": {"k": "Unary", "op": "Not", "e": cond, "ty": "bool", "sp": sp},
             "then": {"k": "Block", "stmts": [{"k": "SSemi", "e": {"k": "Continue", "label": None, "ty": "!", "sp": sp}}], "expr": None,
                      "unsafe": None, "label": None, "ty": "()", "sp": sp},
             "else": None, "ty": "()", "sp": sp}
    body = some[0]["body"]
    bs, bt = _as_stmts(body)
    some[0]["body"] = {"k": "Block", "stmts": [guard] + bs, "expr": bt, "unsafe": None, "label": None, "ty": body.get("ty", "()"),
                       "sp": body.get("sp")}
    n["e"]["args"][0] = it["recv"]
    if notes is not None:
        notes.append("for-loop over `.filter(..)` read as a loop with a `continue` guard")
    return cnt + 1


def _expand_in(f, targets, fns, hi, data):
    if not targets:
        return
    m = f.get("mir")
    n_mir = 0
    if m:
        guard = 0
        changed = True
        while changed and guard < 200:
            changed = False
            for b, blk in enumerate(m["blocks"]):
                t = blk["term"]
                if t["k"] == "Call" and t.get("callee") in targets:
                    inline_mir_call(f, b, fns[t["callee"]], t["callee"])
                    data["inlined"].setdefault(t["callee"], []).append(f["path"])
                    n_mir += 1
                    changed = True
                    guard += 1
                    break
    h = f.get("hir")
    if h:
        names = _Names.of(h)
        done = []
        r = hi.rewrite(h["body"], targets, names, done)
        if r is not None:
            h["body"] = r
        if done:
            _splice(h["body"])
            r = case_of_case(h["body"])
            if r is not None:
                h["body"] = r
            _splice(h["body"])       # a rewritten `if let` in statement position is a block of the helper's statements again
        if len(done) != n_mir and f["kind"] != "Closure":
            data["inline_notes"].append("%s: %d helper calls expanded in MIR, %d in HIR" % (f["path"], n_mir, len(done)))
