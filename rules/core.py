"""Shared plumbing: fact loading (anchors fail closed), rule-instance recording,
known-findings handling, evidence and replay writing.

Nothing in here (or in any rule module) executes code from /repo: the only input is
the JSON fact file produced by the compiler driver in /verif/engine.
"""
import json, os, sys, time, hashlib, subprocess, tempfile, shutil
from . import hir as hir_mod

VERIF = os.path.dirname(os.path.dirname(os.path.abspath(__file__)))
REPO = os.environ.get("VERIF_REPO", "/repo")


class AnchorMissing(Exception):
    pass


class Facts:
    """The compiler's view of the crate.  Lookups raise AnchorMissing (-> violation)."""

    def __init__(self, data, label="dev"):
        if not os.environ.get("VERIF_NO_INLINE") and "inlined" not in data:
            from . import inline
            data = inline.apply(data)
        self.d = data
        self.label = label
        self.inlined = data.get("inlined", {})
        self.inline_notes = data.get("inline_notes", [])
        hir_mod.HELPER_HIR.clear()
        hir_mod.HELPER_HIR.update(data.get("helper_hir", {}))
        self.fns = {}
        for f in data["fns"]:
            self.fns[f["path"]] = f
        self.consts = {c["path"]: c for c in data["consts"]}
        self.adts = {a["path"]: a for a in data["adts"]}
        self.statics = data.get("statics", [])

    def activate(self):
        """make this fact base the default context of hir.fold (table helpers) - called when a check starts using it"""
        hir_mod.DEFAULT_FACTS[0] = self
        return self

    def fn(self, path):
        hir_mod.DEFAULT_FACTS[0] = self
        f = self.fns.get(path)
        if f is None:
            raise AnchorMissing("function `%s` not found in crate" % path)
        return f

    def has_fn(self, path):
        return path in self.fns

    def closures_of(self, path):
        """closures written in `path`, and in helpers that were expanded into it (rules/inline.py)"""
        pres = [path + "::{closure#"] + [h + "::{closure#" for h, callers in self.inlined.items() if path in callers]
        return [f for p, f in self.fns.items() if p.startswith(tuple(pres))]

    def adt(self, path):
        a = self.adts.get(path)
        if a is None:
            raise AnchorMissing("type `%s` not found in crate" % path)
        return a

    def const(self, path):
        c = self.consts.get(path)
        if c is None:
            raise AnchorMissing("const `%s` not found in crate" % path)
        return c

    # decoded constant values -------------------------------------------------
    def const_bytes(self, path):
        c = self.const(path)
        v = c.get("value") or {}
        h = v.get("bytes") or v.get("ptr_to_bytes")
        if h is None:
            raise AnchorMissing("const `%s` has no evaluated bytes" % path)
        return bytes.fromhex(h)

    def const_ints(self, path, width, signed=False):
        b = self.const_bytes(path)
        return [int.from_bytes(b[i:i + width], "little", signed=signed) for i in range(0, len(b), width)]

    def const_int(self, path):
        c = self.const(path)
        ty = c["ty"]
        b = self.const_bytes(path)
        return int.from_bytes(b, "little", signed=ty.startswith("i"))

    def enum_discr(self, path):
        a = self.adt(path)
        return {v["name"]: v["discr"] for v in a["variants"]}


def extract_facts(repo=None, extra_flags="", label="dev"):
    """Run the driver over the repo's *current working tree* and load the fact file."""
    repo = repo or REPO
    out = tempfile.mktemp(prefix="chessfacts_", suffix=".json", dir="/tmp")
    try:
        r = subprocess.run([os.path.join(VERIF, "engine", "extract.sh"), repo, out, extra_flags],
                           capture_output=True, text=True)
        if r.returncode != 0 or not os.path.exists(out):
            raise RuntimeError("fact extraction failed (does /repo build?):\n" + r.stderr[-4000:])
        with open(out) as fh:
            data = json.load(fh)
        if data.get("crate") != "rustybait":
            raise RuntimeError("fact file is for crate %r, expected rustybait" % data.get("crate"))
        return Facts(data, label)
    finally:
        if os.path.exists(out):
            os.unlink(out)


REL_FLAGS = "-C overflow-checks=off -C debug-assertions=off"


class Ctx:
    """Per-run context handed to a property module."""

    def __init__(self, prop, tier, facts_loader):
        self.prop = prop
        self.tier = tier
        self._loader = facts_loader
        self._facts = {}
        self.instances = []      # every evaluated rule instance
        self.violations = []     # dicts
        self.notes = []
        self.assumptions = []
        self.trusted = []
        self.functions = set()
        self.extra = {}
        self.t0 = time.time()

    # facts -------------------------------------------------------------
    @property
    def facts(self):
        return self.get_facts("dev")

    @property
    def facts_rel(self):
        return self.get_facts("rel")

    def get_facts(self, label):
        if label not in self._facts:
            self._facts[label] = self._loader(label)
        return self._facts[label]

    # recording -----------------------------------------------------------
    def touch(self, *fn_paths):
        for p in fn_paths:
            self.functions.add(p)

    def check(self, rule, key, ok, fn=None, line=None, file=None, what="", expected=None, found=None,
              nontrivial=True):
        """Record one evaluated rule instance.  `key` must not contain line numbers."""
        rec = {"rule": rule, "instance": key, "ok": bool(ok)}
        if fn:
            rec["function"] = fn
            self.functions.add(fn)
        if file:
            rec["file"] = file
        if line:
            rec["line"] = line
        if what:
            rec["what"] = what
        if expected is not None:
            rec["expected"] = expected
        if found is not None:
            rec["found"] = found
        rec["nontrivial"] = bool(nontrivial)
        self.instances.append(rec)
        if not ok:
            v = dict(rec)
            v["property"] = self.prop
            v["key"] = "%s|%s|%s" % (rule, fn or "-", key)
            self.violations.append(v)
        return ok

    def floor(self, rule, what, counted, minimum):
        """A rule that matches fewer sites than were confirmed by hand passes vacuously: report."""
        self.check(rule, "floor:%s" % what, counted >= minimum,
                   what="rule `%s` must match at least %d %s; matched %d (mechanism removed or renamed?)"
                        % (rule, minimum, what, counted),
                   expected=">=%d" % minimum, found=counted, nontrivial=False)

    def anchor_missing(self, rule, msg):
        self.check(rule, "anchor:" + msg, False, what="anchor missing: " + msg, nontrivial=False)

    def note(self, s):
        self.notes.append(s)

    def assume(self, s):
        if s not in self.assumptions:
            self.assumptions.append(s)

    def trust(self, s):
        if s not in self.trusted:
            self.trusted.append(s)


def _jsonable(o):
    if isinstance(o, (set, frozenset)):
        return sorted(o, key=str)
    return str(o)


def load_known():
    p = os.path.join(VERIF, "known_findings.json")
    if not os.path.exists(p):
        return []
    with open(p) as fh:
        return json.load(fh).get("entries", [])


def finish(ctx, level="other", explanation="", rule_text="", checker_cmd=None, extra_cov=None):
    """Compare with known findings, write replay + evidence, print verdict lines, return exit code."""
    known = {e["key"]: e for e in load_known() if e.get("kind") == "finding" and e.get("property") == ctx.prop}
    ev_dir = os.environ.get("VERIF_EVIDENCE_DIR") or os.path.join(VERIF, "evidence")
    rp_dir = os.path.join(ev_dir, "replay")
    os.makedirs(rp_dir, exist_ok=True)
    # remove stale replay files of this property
    for f in os.listdir(rp_dir):
        if f.startswith(ctx.prop + "-"):
            os.unlink(os.path.join(rp_dir, f))
    new_violations = []
    for v in ctx.violations:
        if v["key"] in known:
            print("KNOWN-FINDING: property=%s %s (%s)" % (ctx.prop, known[v["key"]].get("what", v.get("what", "")), v["key"]))
            continue
        new_violations.append(v)
    for v in new_violations:
        h = hashlib.sha1(v["key"].encode()).hexdigest()[:10]
        path = os.path.join(rp_dir, "%s-%s.json" % (ctx.prop, h))
        with open(path, "w") as fh:
            json.dump(v, fh, indent=1, default=_jsonable)
        loc = ""
        if v.get("file") or v.get("function"):
            loc = " at %s:%s in %s" % (v.get("file", "?"), v.get("line", "?"), v.get("function", "?"))
        print("  [%s] %s%s" % (v["rule"], v.get("what", v["instance"]), loc))
        if "expected" in v or "found" in v:
            print("      expected: %s\n      found:    %s" % (v.get("expected"), v.get("found")))
        print("VIOLATION property=%s replay=%s" % (ctx.prop, path))

    evaluations = len(ctx.instances)
    distinct_nt = len({(i["rule"], i.get("function"), i["instance"]) for i in ctx.instances if i["nontrivial"]})
    samples = []
    seen_rules = set()
    for i in ctx.instances:  # one sample per rule first, then fill
        if i["rule"] not in seen_rules:
            seen_rules.add(i["rule"])
            samples.append({k: i[k] for k in i if k != "nontrivial"})
    for i in ctx.instances:
        if len(samples) >= 40:
            break
        s = {k: i[k] for k in i if k != "nontrivial"}
        if s not in samples:
            samples.append(s)
    cov = {
        "explanation": explanation,
        "evaluations": evaluations,
        "distinct_nontrivial": distinct_nt,
        "rule": rule_text or "one evaluation = one rule instance (rule id x anchored site x slot) decided on the "
                             "compiler's facts for /repo's working tree; non-trivial = it matched a real site and "
                             "compared extracted content with an oracle (floors/anchor checks are counted as trivial)",
        "samples": samples,
        "rules": sorted(seen_rules),
        "functions_analysed": sorted(ctx.functions),
        "checker_cmd": checker_cmd or ("./check %s --tier %s" % (ctx.prop, ctx.tier)),
        "trusted_base": ["rustc nightly front end (type check, const evaluation, MIR construction)",
                         "the fact serialiser /verif/engine (no rule inside)"] + ctx.trusted,
        "notes": ctx.notes,
        "fact_configs": sorted(ctx._facts.keys()),
    }
    # what the helper-expansion / anchor-aliasing pre-pass did to the facts of this tree (rules/inline.py)
    pre = {}
    for lbl, fx in ctx._facts.items():
        if getattr(fx, "inlined", None) or getattr(fx, "inline_notes", None):
            pre[lbl] = {"helpers_expanded_into": {h: sorted(set(c)) for h, c in fx.inlined.items()}, "notes": list(fx.inline_notes)[:20]}
    cov["pre_pass"] = pre or "no helper outside the anchored functions; no anchor renamed"
    if extra_cov:
        cov.update(extra_cov)
    cov.update(ctx.extra)
    if level == "proof":
        cov.setdefault("obligations", evaluations)
        cov.setdefault("discharged", evaluations - len(ctx.violations))
    ev = {
        "property_id": ctx.prop,
        "tier": ctx.tier,
        "seed": int(os.environ.get("VERIF_SEED", "0") or 0),
        "level": level,
        "coverage": cov,
        "assumptions": ctx.assumptions,
        "wall_s": round(time.time() - ctx.t0, 3),
        "violations": len(new_violations),
        "known_findings_matched": len(ctx.violations) - len(new_violations),
    }
    with open(os.path.join(ev_dir, ctx.prop + ".json"), "w") as fh:
        json.dump(ev, fh, indent=1, default=_jsonable)
    n_ok = sum(1 for i in ctx.instances if i["ok"])
    print("%s: %d rule instances evaluated (%d non-trivial distinct), %d ok, %d violation(s), %d known; "
          "%d functions; %.1fs"
          % (ctx.prop, evaluations, distinct_nt, n_ok, len(new_violations),
             len(ctx.violations) - len(new_violations), len(ctx.functions), time.time() - ctx.t0))
    return 1 if new_violations else 0
