"""C02 - playing a move produces the position the rules prescribe.

Decides: (R1) per move kind and owner the board surgery of Game::push equals the rules of chess; (R2) the
castling-right revocation tables at all sibling sites map each home square to its right, and every arm whose
move can capture contains the capture tables; (R3) every king move clears both rights of the mover and only
those; (R4) bit layout of the state byte; (R5) once-per-ply effects (en-passant reset, one side flip, one state
push of the modified copy); (R6) an en-passant file is recorded only for a double pawn step with an enemy pawn
beside the destination.
Does not decide: that push is only handed moves consistent with the board (C01/C12).
"""
from . import core, hir, surgery
from .common import discr_map, gamestate_bit_facts, neighbour_pawn_guard, dependence_nodes, enclosing_conditions

LEVEL = "other"
EXPLANATION = ("Symbolic extraction of the set_position/set_king_position sequence of every arm of Game::push, folded per "
               "owner and compared with the rules of chess; revocation match tables resolved through the const-evaluated "
               "Position constants; guards of every state-changing call extracted from typed HIR.")
PUSH = "chess::Game::push"
PL = "chess::Player::"
HOME = {(0, 0): "white_queen", (0, 7): "white_king", (7, 0): "black_queen", (7, 7): "black_king"}


def run(ctx):
    F = ctx.facts
    fn = F.fn(PUSH)
    r123(ctx, F)
    for key, ok, fnp, found in gamestate_bit_facts(F)[0]:
        ctx.check("C02.R4", "state-byte:" + key, ok, fn=fnp, file="src/chess/gamestate.rs",
                  what="bit layout of the castling rights / en-passant nibble is inconsistent", found=found)
    r5(ctx, F, fn)
    r6(ctx, F, fn)
    # R7 = C12.U6: the position a move list is played on is the one the command states
    from . import p12, p11
    before, nv = len(ctx.instances), len(ctx.violations)
    p12.u6(ctx, F, "C12.U6")
    for i in ctx.instances[before:]:
        i["rule"] = "C02.R7(" + i["rule"] + ")"
    for v in ctx.violations[nv:]:
        v["rule"] = "C02.R7(" + v["rule"] + ")"
        v["key"] = "C02.R7|" + v["key"]
    # R9 = C03.S1b / R10 = C12.U2: nothing but push's own board surgery changes the board while a move is played (no table swap or
    # re-seating reachable from push), and the promotion piece a move text names is the piece that is placed
    from . import p03, p17
    from .common import discr_map as _dm
    before, nv = len(ctx.instances), len(ctx.violations)
    p03.s1b(ctx, F)
    p17.relabel(ctx, before, nv, "C02.R9")
    before, nv = len(ctx.instances), len(ctx.violations)
    p12.u2(ctx, F, _dm(F))
    p17.relabel(ctx, before, nv, "C02.R10")
    # R11 = C03.M: the rights and the en-passant file push starts from (`self.state()`) are those of the entry stacked last
    before, nv = len(ctx.instances), len(ctx.violations)
    p03.current_state_is_top(ctx, F)
    p17.relabel(ctx, before, nv, "C02.R11")
    # R8 = the writer half of C11: the property is observed through Game::fen() (fields 1-4), which must render the state push left
    before, nv = len(ctx.instances), len(ctx.violations)
    p11._FACTS[0] = F
    em, _sym = p11.emissions(F.fn(p11.WRITER), F, recv="result")
    p11.writer_board(ctx, F, em)
    p11.writer_fields(ctx, F, em)
    # (fields 1-4 only: the two move counters are no part of this property)
    ctx.instances[before:] = [i for i in ctx.instances[before:] if not (i["rule"] == "C11.T7" and "writer:summarisable" not in str(i.get("key", i.get("name", ""))))]
    ctx.violations[nv:] = [v for v in ctx.violations[nv:] if not (v["rule"] == "C11.T7" and "writer:summarisable" not in str(v.get("key", "")))]
    for i in ctx.instances[before:]:
        i["rule"] = "C02.R8(" + i["rule"] + ")"
    for v in ctx.violations[nv:]:
        v["rule"] = "C02.R8(" + v["rule"] + ")"
        v["key"] = "C02.R8|" + v["key"]


def r123(ctx, F, rules=("R1", "R2", "R3"), prefix="C02"):
    """Board, king cache and castling rights after a move, by evaluating the summary of Game::push on a table of concrete moves
    (rules/playmodel.py): R1 board and king cache, R2 rights lost by rook moves / captures on a rook's home square, R3 rights lost by
    king moves and castling."""
    from . import playmodel
    fn = F.fn(PUSH)
    try:
        bad, n = playmodel.check_push(F)
    except hir.Unsupported as e:
        ctx.check(prefix + ".R1", "push-summarisable", False, fn=PUSH, file=fn["file"], nontrivial=False,
                  what="Game::push is no longer a loop-free update that can be summarised: %s" % e)
        return
    by_case = {}
    for name, txt in bad:
        by_case.setdefault(name, []).append(txt)
    for name, mv, owner, pre, exp in playmodel.move_cases():
        probs = by_case.get(name, [])
        kingish = name.startswith(("king", "Castling"))
        for rule, sel, what in (("R1", lambda t: not t.startswith("castling rights") and not t.startswith("right "),
                                 "the board and the cached king square after the move are not what the rules of chess prescribe"),
                                ("R3" if kingish else "R2", lambda t: t.startswith("castling rights") or t.startswith("right "),
                                 "the castling rights after the move are not what the rules prescribe (a king move or castling loses both rights of "
                                 "the mover; a rook leaving, or anything captured on, a rook's home square loses that right; nothing else does)")):
            if rule not in rules:
                continue
            mine = [t for t in probs if sel(t)]
            ctx.check("%s.%s" % (prefix, rule), "push:%s" % name, not mine, fn=PUSH, file=fn["file"], line=fn["span"][0], what=what,
                      expected={"board": playmodel.show_board(exp["board"]), "king cache": exp["king"], "rights lost": sorted(exp["cleared"])},
                      found=mine or "as prescribed")
    ctx.floor(prefix + ".R1", "move cases evaluated", n, 30)


def r1(ctx, fn, ex):
    n = 0
    for v in surgery.VARIANTS:
        for owner in ("White", "Black"):
            got = ex[v][owner]
            uncond = [w for w in got["writes"] if not [g for g in w[2] if not g[0].startswith("arm ")]]
            fm = surgery.final_map(uncond)
            exp, king = surgery.forward_oracle(v, owner)
            n += 1
            ctx.check("C02.R1", "surgery:%s/%s" % (v, owner), fm == exp and len(uncond) == len(got["writes"]), fn=PUSH,
                      file=fn["file"], line=got["writes"][0][3] if got["writes"] else fn["span"][0],
                      what="Game::push does not put the pieces where the rules of chess put them for a %s move by %s" % (v, owner),
                      expected=_show(exp), found=_show(fm))
            # king cache
            if v == "Normal":
                ks = got["king"]
                ok = len(ks) == 1 and ks[0][0] == owner and ks[0][1] == "end" and \
                    [g for g in ks[0][2] if not g[0].startswith("arm ")] == [("(m.piece.piece_type == PieceType::King)", True)]
                ctx.check("C02.R1", "king-cache:Normal/%s" % owner, ok, fn=PUSH, file=fn["file"],
                          what="the cached king square must follow a king move (and only a king move) to `end`",
                          expected="set_king_position(mover, end) iff piece.piece_type == King", found=[(k[0], k[1], k[2]) for k in ks])
            elif king is not None:
                ks = got["king"]
                ok = len(ks) == 1 and ks[0][0] == owner and ks[0][1] == king and not [g for g in ks[0][2] if not g[0].startswith("arm ")]
                ctx.check("C02.R1", "king-cache:%s/%s" % (v, owner), ok, fn=PUSH, file=fn["file"],
                          what="the cached king square must move to the castled square", expected=(owner, king),
                          found=[(k[0], k[1], k[2]) for k in ks])
            else:
                ctx.check("C02.R1", "king-cache:%s/%s" % (v, owner), not got["king"], fn=PUSH, file=fn["file"],
                          what="a pawn move must not touch the cached king square", found=[(k[0], k[1]) for k in got["king"]])
    ctx.floor("C02.R1", "variant x owner surgeries", n, 10)


def _show(m):
    return {str(k): (v if not isinstance(v, tuple) else "%s(%s)" % v) for k, v in sorted(m.items(), key=lambda kv: str(kv[0]))}


def const_square(F, path):
    b = F.const_bytes(path)
    return (int.from_bytes(b[0:1], "little", signed=True), int.from_bytes(b[1:2], "little", signed=True))


def revocation_tables(F, arm_body, sym):
    """[(scrutinee text, {square: setter name}, guards, node)] for matches on Position constants inside an arm."""
    out = []
    for n, anc in hir.walk(arm_body):
        if n.get("k") == "Match" and n.get("src") == "Normal":
            tab = {}
            for a in n["arms"]:
                pk = hir.pat_key(a["pat"])
                if isinstance(pk, tuple) and pk[0] == "const" and pk[1].startswith("chess::position::Position::"):
                    b = hir.strip(a["body"])
                    name = b["name"] if b.get("k") == "MethodCall" else None
                    tab[const_square(F, pk[1])] = name
            if tab:
                g = hir.guards_of(n, arm_body, sym) or []
                out.append((hir.fmt(sym(n["e"]), 40), tab, [(hir.fmt(x[1], 200), x[2]) for x in g if x[0] == "if"], n))
    return out


def r2(ctx, F, fn, arms):
    env = hir.Env(fn["hir"], F)
    sym = hir.Sym(env, F)
    n_entries = 0
    n_sites = 0
    for v in ("Normal", "Promotion"):
        arm = arms[v]
        ren = surgery.field_renames(arm["pat"])
        inv = {b: f for b, f in ren.items()}
        tabs = revocation_tables(F, arm["body"], sym)
        n_sites += len(tabs)
        cap_cover = {}
        leave_cover = {}
        for scr, tab, guards, node in tabs:
            which = inv.get(scr, scr)
            for sq, setter in tab.items():
                n_entries += 1
                want = "set_%s_castling_false" % HOME.get(sq, "?")
                ctx.check("C02.R2", "revocation:%s:%s:%s" % (v, which, HOME.get(sq, sq)), setter == want, fn=PUSH, file=fn["file"],
                          line=hir.line(node),
                          what="a rook leaving / being captured on %s must revoke exactly the right of that corner" % (sq,),
                          expected=want, found=setter)
            if which == "end":
                for sq in tab:
                    cap_cover[sq] = cap_cover.get(sq, 0) + 1
                gtxt = " ".join(g[0] for g in guards)
                ctx.check("C02.R2", "capture-table-guard:%s:%s" % (v, ",".join(HOME.get(s, "?") for s in sorted(tab))),
                          "captured_piece" in gtxt.replace(inv and "x" or "x", "x") or "is_some" in gtxt, fn=PUSH, file=fn["file"],
                          line=hir.line(node), nontrivial=False,
                          what="capture revocation table should be conditional on a captured piece", found=guards)
            elif which == "start":
                for sq in tab:
                    leave_cover[sq] = 1
                ok = any("PieceType::Rook" in g[0] and g[1] is True for g in guards)
                ctx.check("C02.R2", "rook-leaves-home-guard", ok, fn=PUSH, file=fn["file"], line=hir.line(node),
                          what="the origin-square table must apply to rook moves", found=guards)
        ctx.check("C02.R2", "capture-on-home-square-revokes:%s" % v, set(cap_cover) == set(HOME), fn=PUSH, file=fn["file"],
                  line=hir.line(arm["body"]),
                  what="a %s move that captures on a rook's home square must revoke that corner's right: a kept right lets the "
                       "king castle with a missing rook many plies later" % ("promotion" if v == "Promotion" else "normal"),
                  expected=sorted(HOME.values()), found=sorted(HOME.get(s, str(s)) for s in cap_cover))
        if v == "Normal":
            ctx.check("C02.R2", "rook-leaving-home-revokes", set(leave_cover) == set(HOME), fn=PUSH, file=fn["file"],
                      what="a rook moving off any of the four home squares must revoke that corner's right",
                      expected=sorted(HOME.values()), found=sorted(HOME.get(s, str(s)) for s in leave_cover))
    ctx.floor("C02.R2", "revocation table entries", n_entries, 12)
    ctx.floor("C02.R2", "revocation sites", n_sites, 5)


def r3(ctx, F, fn, arms):
    env = hir.Env(fn["hir"], F)
    sym = hir.Sym(env, F)
    n = 0
    for v in ("Normal", "CastlingLong", "CastlingShort"):
        arm = arms[v]
        found = {}
        node = None
        for m, anc in hir.walk(arm["body"]):
            if m.get("k") == "Match" and m.get("src") == "Normal" and sym(m["e"]) == ("field", ("var", "self"), "current_player"):
                g = [(hir.fmt(x[1], 120), x[2]) for x in (hir.guards_of(m, arm["body"], sym) or []) if x[0] == "if"]
                want_g = [("(piece.piece_type == PieceType::King)", True)] if v == "Normal" else []
                if g != want_g:
                    continue
                node = m
                for a in m["arms"]:
                    pk = hir.pat_key(a["pat"])
                    who = pk[1][len(PL):] if isinstance(pk, tuple) and pk[0] == "variant" else str(pk)
                    found[who] = sorted(c["name"] for c, _ in hir.walk(a["body"]) if c.get("k") == "MethodCall" and "castling" in c["name"])
        exp = {"White": ["set_white_king_castling_false", "set_white_queen_castling_false"],
               "Black": ["set_black_king_castling_false", "set_black_queen_castling_false"]}
        n += 1
        ctx.check("C02.R3", "king-move-clears-both-rights:%s" % v, found == exp, fn=PUSH, file=fn["file"],
                  line=hir.line(node) if node else hir.line(arm["body"]),
                  what="a king move (%s) must clear both castling rights of the side that moves, and only those" % v,
                  expected=exp, found=found)
    ctx.floor("C02.R3", "king-move sites", n, 3)


def r5(ctx, F, fn):
    body = hir.strip(fn["hir"]["body"])
    env = hir.Env(fn["hir"], F)
    sym = hir.Sym(env, F)
    stmts = body.get("stmts") or []
    seq = []
    work = None
    for st in stmts:
        n = hir.strip(st)
        if n.get("k") == "SLet" and n["pat"].get("k") == "PBind" and sym(n["init"]) == ("call", "chess::Game::state", (("var", "self"),)):
            work = n["pat"]["name"]
            seq.append("copy-state")
        elif n.get("k") == "MethodCall" and n["name"] == "set_en_passant" and hir.strip(n["recv"]).get("to", {}).get("name") == work \
                and hir.sym_int(sym(n["args"][0])) == 8:
            seq.append("reset-ep")
        elif n.get("k") == "Match" and n.get("src") == "Normal":
            seq.append("match")
        elif n.get("k") == "Assign" and hir.strip(n["l"]).get("k") == "Field" and hir.strip(n["l"])["name"] == "current_player":
            want_flip = ("call", "chess::Player::the_other", (("field", ("var", "self"), "current_player"),))
            ok = sym(n["r"]) == want_flip
            if not ok:
                # the mover read into a local first: the same value as long as this is the only assignment of the side in the function
                n_assign = sum(1 for x, _ in hir.walk(fn["hir"]["body"]) if x.get("k") == "Assign" and hir.strip(x["l"]).get("k") == "Field"
                               and hir.strip(x["l"])["name"] == "current_player")
                ok = n_assign == 1 and hir.Sym(env, F, through=True)(n["r"]) == want_flip
            seq.append("flip" if ok else "assign-player?")
        else:
            for c, anc in hir.walk(n):
                if c.get("k") == "MethodCall" and c["name"] in ("push_unchecked", "push", "try_push") and \
                        hir.strip(c["recv"]).get("k") == "Field" and hir.strip(c["recv"])["name"] == "state":
                    a = hir.strip(c["args"][0])
                    seq.append("push-state" if a.get("to", {}).get("name") == work else "push-other")
    core_seq = [x for x in seq]
    ok = core_seq[:3] == ["copy-state", "reset-ep", "match"] and core_seq.count("flip") == 1 and core_seq.count("push-state") == 1 \
        and "push-other" not in core_seq and "assign-player?" not in core_seq
    ctx.check("C02.R5", "once-per-ply-effects", ok, fn=PUSH, file=fn["file"], line=fn["span"][0],
              what="every push must: copy the state, reset the en-passant file, apply the move, flip the side exactly once and "
                   "push exactly the modified copy", expected=["copy-state", "reset-ep", "match", "flip", "push-state"], found=seq)
    to = F.fn("chess::Player::the_other")
    nf = hir.summarize(to, F)
    D = discr_map(F)
    flips = {o: hir.fmt(hir.fold(nf, {("var", "self"): ("variant", PL + o)}, D), 40) for o in ("White", "Black")}
    ctx.check("C02.R5", "the_other-swaps-the-sides", flips == {"White": "Player::Black", "Black": "Player::White"}, fn=to["path"], file=to["file"],
              line=to["span"][0], what="Player::the_other must map White to Black and Black to White (it is the side flip of every ply)",
              expected={"White": "Player::Black", "Black": "Player::White"}, found=flips)
    # no other write of current_player / state pushes hidden in arms
    inner = 0
    for n, anc in hir.walk(body):
        if n.get("k") == "Assign" and hir.strip(n["l"]).get("k") == "Field" and hir.strip(n["l"])["name"] == "current_player":
            inner += 1
    ctx.check("C02.R5", "single-side-flip", inner == 1, fn=PUSH, file=fn["file"],
              what="the side to move is assigned more than once in push", found=inner)


def r6(ctx, F, fn):
    """En-passant recording, decided by evaluating what `push` leaves in the en-passant nibble for a table of cases:
    move kind x piece x owner x (rows moved) x file x content of the two squares beside the destination."""
    from .common import chess_evalcalls
    PT_, PCE = "chess::piece::PieceType::", "chess::piece::Piece"
    ex = hir.Exec(fn["hir"], F)
    ex.setters = {"chess::gamestate::GameState::set_en_passant": ("ep", None)}
    try:
        ex.run()
    except hir.Unsupported as e:
        ctx.check("C02.R6", "push-summarisable", False, fn=PUSH, file=fn["file"], nontrivial=False,
                  what="Game::push is no longer a loop-free update that can be summarised: %s" % e)
        return
    eps = [v for k, v in ex.store.items() if isinstance(k, tuple) and k[0] == "fieldstore" and k[2] == "ep"]
    ctx.check("C02.R6", "en-passant-nibble-written-on-a-state-local", len(eps) == 1, fn=PUSH, file=fn["file"], nontrivial=False,
              what="push must reset/record the en-passant file on its copy of the state", found=len(eps))
    if len(eps) != 1:
        return
    EP = eps[0]
    D = discr_map(F)
    mvname = fn["hir"]["params"][1]["pat"].get("name")
    SOME, NONE = "std::prelude::v1::Some", ("variant", "std::prelude::v1::None")

    def piece(kind, owner):
        return ("struct", PCE, (("owner", ("variant", PL + owner)), ("piece_type", ("variant", PT_ + kind))))
    MV = "chess::move_struct::Move::"
    bad = []
    n = 0
    contents = {"empty": lambda me: NONE, "enemy pawn": lambda me: ("ctor", SOME, (piece("Pawn", "Black" if me == "White" else "White"),)),
                "own pawn": lambda me: ("ctor", SOME, (piece("Pawn", me),)),
                "enemy rook": lambda me: ("ctor", SOME, (piece("Rook", "Black" if me == "White" else "White"),))}
    for owner, r1, r2s in (("White", 1, (3, 2)), ("Black", 6, (4, 5))):
        for kind in ("Pawn", "Rook"):
            for r2 in r2s:
                for c in range(8):
                    for ln, lf in contents.items():
                        for rn, rf in contents.items():
                            board = {(r2, c - 1): lf(owner), (r2, c + 1): rf(owner)}
                            mv = ("struct", MV + "Normal", (("captured_piece", NONE), ("end", ("pos", r2, c)), ("piece", piece(kind, owner)), ("start", ("pos", r1, c))))
                            a = {("var", mvname): mv, ("field", ("var", "self"), "current_player"): ("variant", PL + owner)}
                            for (br, bc), content in board.items():     # the same squares read straight from the array
                                if 0 <= br < 8 and 0 <= bc < 8:
                                    a[("index", ("field", ("var", "self"), "board"), ("lit", br * 8 + bc))] = content
                            v = hir.fold(EP, a, D, hir.table_helpers(F), chess_evalcalls(board))
                            near = [x for x, cc in ((ln, c - 1), (rn, c + 1)) if 0 <= cc <= 7]
                            want = c if (kind == "Pawn" and abs(r2 - r1) == 2 and "enemy pawn" in near) else 8
                            n += 1
                            if v != ("lit", want):
                                bad.append({"move": "%s %s (%d,%d)->(%d,%d)" % (owner, kind, r1, c, r2, c), "left": ln, "right": rn,
                                            "en passant": hir.fmt(v, 100), "expected": want})
    ctx.check("C02.R6", "recorded-exactly-for-a-double-step-beside-an-enemy-pawn", not bad, fn=PUSH, file=fn["file"], line=fn["span"][0],
              what="after a Normal move the en-passant file must be the moved pawn's file exactly when a pawn moved two rows and an "
                   "enemy pawn stands on a square beside its destination that is on the board, and 8 (none) otherwise",
              expected="pawn && |rows| == 2 && enemy pawn on (end.row, end.col -/+ 1) => file, else 8", found=bad[:3] or "%d cases" % n)
    # the other move kinds never record a file
    bad2 = []
    for vname, mv in (("Promotion", ("struct", MV + "Promotion", (("captured_piece", NONE), ("end", ("pos", 7, 3)), ("new_piece", ("variant", PT_ + "Queen")),
                                                                   ("owner", ("variant", PL + "White")), ("start", ("pos", 6, 3))))),
                      ("EnPassant", ("struct", MV + "EnPassant", (("end_col", ("lit", 3)), ("owner", ("variant", PL + "White")), ("start_col", ("lit", 4))))),
                      ("CastlingShort", ("struct", MV + "CastlingShort", (("owner", ("variant", PL + "White")),))),
                      ("CastlingLong", ("struct", MV + "CastlingLong", (("owner", ("variant", PL + "Black")),)))):
        own = dict(mv[2]).get("owner", ("variant", PL + "White"))
        v = hir.fold(EP, {("var", mvname): mv, ("field", ("var", "self"), "current_player"): own}, D, hir.table_helpers(F), chess_evalcalls({}))
        if v != ("lit", 8):
            bad2.append((vname, hir.fmt(v, 100)))
    ctx.check("C02.R6", "other-move-kinds-reset-the-file", not bad2, fn=PUSH, file=fn["file"],
              what="promotions, en-passant captures and castling leave no en-passant file behind", expected="8 (none)", found=bad2 or "ok")
    ctx.floor("C02.R6", "en-passant cases evaluated", n, 100)
