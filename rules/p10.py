"""C10 - forced mates within the horizon are found; dead positions are reported as such.

Decides three structural clauses (and says so):
 N1 the no-move leaf rule agrees across the three search siblings: list empty => draw (0) iff the mover's king exists and
    is not attacked, else `Score::MIN + K + real_depth`; the mover is captured before any move is played;
 N2 the mate constants are ordered against the driver's exit thresholds: a *verified* mate (K = 100, checked list) always
    ends the iteration loop, an unverified one (depth-1: 2000, quiescence: 3000) never does; no overflow;
 N3 no legal move => no bestmove: an empty checked root list yields None through entry point, driver and UCI layer;
 N6-N8 what the table may decide: the root answers only from a deep exact entry, a node only from an entry that settles its
    window, and a node labels what it stores against the window it was entered with (by cases).
Does NOT decide that a depth-3/5 search actually plays the mating move (search numerics, same reason as C09).
"""
from . import core, hir
from .prov import Prov
from . import p06, p07

LEVEL = "other"
EXPLANATION = ("Guards and returned normal forms of the `moves.is_empty()` leaf in quiescence_search, get_best_move_score_depth_1 "
               "and get_best_move_score compared with each other; the driver's exit condition; constants evaluated from the facts; "
               "provenance rules of C06/C07 for the empty-list case.")
SIBS = {"search::quiescence_search": ("unverified", False), "search::get_best_move_score_depth_1": ("unverified", False),
        "search::get_best_move_score": ("verified", True)}
DRIVER = "search::get_best_move_until_stop"


def leaf(fn, F):
    env = hir.Env(fn["hir"], F)
    sym = hir.Sym(env, F)
    body = fn["hir"]["body"]
    out = {"draw": None, "mate": None}
    for n, lv, wr in hir.return_leaves(body):
        if lv is None:
            continue
        g = [(hir.fmt(x[1], 200), x[2]) for x in (hir.guards_of(lv, body, sym) or []) if x[0] == "if"]
        if not any(t.endswith("is_empty(moves)") and pol is True for t, pol in g):
            continue
        v = hir.resolve_consts(hir.wrap_value(sym(lv), wr), F)
        if v[0] == "ctor" and str(v[1]).endswith("::Some"):
            v = v[2][0]
        cond = [x for x in g if "king_exists" in x[0] or "is_targeted" in x[0]]
        if v == ("lit", 0):
            out["draw"] = (cond, n)
        else:
            out["mate"] = (v, cond, n)
    # where is `player` captured?
    order = []
    for st in hir.strip(body).get("stmts") or ():
        s0 = hir.strip(st)
        if s0.get("k") == "SLet" and s0["pat"].get("name") == "player":
            order.append(("player=", hir.fmt(sym(s0["init"]), 60)))
        for c, _ in hir.walk(st):
            if c.get("k") == "MethodCall" and c["name"] in ("push", "get_moves") and hir.callee_of(c) in ("chess::Game::push", "chess::Game::get_moves"):
                order.append((c["name"],))
                break
    return out, order


def run(ctx):
    F = ctx.facts
    ks = n1(ctx, F)
    run_rest(ctx, F, ks)


def n1(ctx, F):
    """N1 per searcher: what a node with no move available returns (draw iff the mover's king is safe, else a mate score by
    distance), the mover captured before anything is played, the kind of move list the test is made on.  Returns {path: K}."""
    ks = {}
    EMPTY = ("call", "arrayvec::ArrayVec::<T, CAP>::is_empty", (("var", "moves"),))
    for path, (kind, checked) in SIBS.items():
        fn = F.fn(path)
        short = path.split("::")[-1]
        body = fn["hir"]["body"]
        env = hir.Env(fn["hir"], F)
        sym = hir.Sym(env, F)
        KE = ("call", "chess::Game::king_exists", (("var", "game"), ("var", "player")))
        IT = ("call", "chess::Game::is_targeted", (("var", "game"), ("call", "chess::Game::get_king_position", (("var", "game"), ("var", "player"))), ("var", "player")))
        base = {EMPTY: ("lit", True), ("var", "remaining_depth"): ("lit", 5), ("var", "alpha"): ("lit", -7), ("var", "beta"): ("lit", 9),
                ("call", "std::sync::atomic::Atomic::<bool>::load", (("var", "continue_running"), ("variant", "std::sync::atomic::Ordering::Relaxed"))): ("lit", True),
                ("call", "std::collections::HashMap::<K, V, S, A>::get", (("var", "table"), ("call", "chess::Game::hash", (("var", "game"),)))): ("variant", "std::prelude::v1::None")}
        # the atomic load / probe are spelled through generic paths: assume every `load(continue_running..)` / `get(table, ..)` term found
        for n_, _ in hir.walk(body):
            if n_.get("k") == "MethodCall" and n_["name"] == "load":
                base[sym(n_)] = ("lit", True)
            if n_.get("k") == "MethodCall" and n_["name"] == "get" and "HashMap" in (hir.callee_of(n_) or ""):
                base[sym(n_)] = ("variant", "std::prelude::v1::None")
            if n_.get("k") == "MethodCall" and n_["name"] == "is_empty" and hir.strip(n_["recv"]).get("to", {}).get("name") == "moves":
                base[sym(n_)] = ("lit", True)
        rows = []
        K = None
        ok_d = ok_m = True
        for ke in (True, False):
            for it in (True, False):
                a = dict(base)
                a[KE], a[IT] = ("lit", ke), ("lit", it)
                v, why = hir.eval_returns(body, sym, a, helpers=hir.table_helpers(F))
                if v is not None:
                    v = hir.resolve_consts(v, F)
                    if v[0] == "ctor" and str(v[1]).endswith("::Some"):
                        v = v[2][0]
                rows.append(((ke, it), hir.fmt(v, 80) if v is not None else why))
                if ke and not it:
                    ok_d = ok_d and v == ("lit", 0)
                else:
                    k_ = None
                    if v is not None and v[0] == "bin" and v[1] == "+" and v[3] == ("cast", ("var", "real_depth"), "i16") and v[2][0] == "bin" and v[2][1] == "+" \
                            and "MIN" in hir.fmt(v[2][2], 40):
                        k_ = hir.sym_int(v[2][3])
                    if v is not None and v[0] == "bin" and v[1] == "+" and v[3] == ("cast", ("var", "real_depth"), "i16") and hir.sym_int(v[2]) is not None:
                        k_ = hir.sym_int(v[2]) + 32768
                    ok_m = ok_m and k_ is not None and (K is None or K == k_)
                    K = k_ if k_ is not None else K
        ks[path] = K if ok_m else None
        ctx.check("C10.N1", "no-move=>draw-iff-king-safe:%s" % short, ok_d, fn=path, file=fn["file"], line=fn["span"][0],
                  what="with no move available the node is a draw (0) exactly when the mover's king exists and is not attacked",
                  expected="king_exists(player) && !is_targeted(get_king_position(player), player) => 0", found=rows)
        ctx.check("C10.N1", "no-move=>mate-score-by-distance:%s" % short, ok_m and K is not None, fn=path, file=fn["file"], line=fn["span"][0],
                  what="otherwise the node is lost: Score::MIN + K + real_depth (the earlier the mate the worse)",
                  expected="Score::MIN + K + real_depth as Score in the three other cases", found=rows)
        lf, order = leaf(fn, F)
        p_ok = order[:2] == [("player=", "Game::player(game)"), ("get_moves",)] and ("push",) not in order[:order.index(("get_moves",)) if ("get_moves",) in order else 0]
        if not p_ok:
            # the mover may also be read later (inside the no-move branch, in an expanded helper) as long as nothing has been
            # played yet: every `let player = game.player()` lies before the first push of the function in the text
            psym = hir.Sym(hir.Env(fn["hir"], F), F)
            lets_ = [n for n, _ in hir.walk(fn["hir"]["body"]) if n.get("k") == "SLet" and str(n["pat"].get("name", "")).split("'")[0] == "player"
                     and n.get("init") is not None]
            pushes_ = [tuple((n.get("sp") or [0, 0])[:2]) for n, _ in hir.walk(fn["hir"]["body"]) if n.get("k") == "MethodCall"
                       and hir.callee_of(n) == "chess::Game::push"]
            first_push = min(pushes_) if pushes_ else (10 ** 9, 0)
            p_ok = bool(lets_) and all(hir.fmt(psym(n["init"]), 60) == "Game::player(game)" and tuple((n.get("sp") or [0, 0])[:2]) < first_push for n in lets_)
        ctx.check("C10.N1", "mover-captured-before-anything-is-played:%s" % short, p_ok, fn=path, file=fn["file"],
                  what="`player` must be game.player() taken before moves are generated or played (after a push it is the opponent)",
                  expected=[("player=", "Game::player(game)"), ("get_moves",)], found=order[:4])
        pv = Prov(fn, F)
        flags = sorted(v["flag"] for v in pv.buffers.values())
        ctx.check("C10.N1", "list-kind:%s" % short, flags == [checked], fn=path, file=fn["file"], nontrivial=False,
                  what="sibling uses the expected kind of move list", expected=[checked], found=flags)
    return ks


def n6(ctx, F, rule="C10.N6"):
    """N6 the root answers from the table only with an entry that is exact and at least as deep as the iteration asked for: a bound,
    or a shallower result, handed back as the result of iteration d means the search never looks d plies ahead (from a fresh table
    every iteration after the first is then answered by the first one and no mate is ever seen)."""
    fn = F.fn("search::get_best_move_entry")
    body = fn["hir"]["body"]
    sym = hir.Sym(hir.Env(fn["hir"], F), F)
    SOME = "std::prelude::v1::Some"
    n = 0
    for r, anc in hir.walk(body):
        if r.get("k") != "Ret" or r.get("e") is None or any(a_.get("k") == "Loop" for a_ in anc):
            continue
        g = hir.guards_of(r, body, sym) or []
        term = hir.guards_term(g)
        gets = [t_ for t_ in hir.subterms(term) if isinstance(t_, tuple) and t_[:1] == ("call",) and str(t_[1]).endswith("HashMap::<K, V, S, A>::get")]
        if not gets:
            continue
        t1 = hir.fold(term, {g_: ("ctor", SOME, (("var", "ENTRY"),)) for g_ in gets})
        flds = {t_ for t_ in hir.subterms(t1) if isinstance(t_, tuple) and t_[:1] == ("field",) and t_[1] == ("var", "ENTRY")}
        # the shortcut is the return that hands back something of the entry (its move, its score) - whatever its condition looks at
        names_e = {nm for g_ in g if g_[0] == "if" and isinstance(g_[1], tuple) and g_[1][:1] == ("let",) and
                   any(x_ in gets for x_ in hir.subterms(g_[1][2])) for nm in (g_[1][3] if len(g_[1]) > 3 else ())}
        rv = sym(r["e"])
        if not any(isinstance(t_, tuple) and t_[:1] == ("field",) and t_[1][:1] == ("var",) and t_[1][1] in names_e for t_ in hir.subterms(rv)):
            continue
        n += 1
        bad = []
        for de in (4, 5, 6):
            for flag in ("Exact", "LowerBound", "UpperBound"):
                a = {("var", "depth"): ("lit", 5)}
                for f_ in flds:
                    if f_[2] == "depth":
                        a[f_] = ("lit", de)
                    if f_[2] == "flag":
                        a[f_] = ("variant", "search::NodeType::" + flag)
                v = hir.fold(hir.fold(t1, a), a)
                want = de >= 5 and flag == "Exact"
                is_false = v == ("lit", False) or hir.all_leaves_false(v)
                if is_false == want:        # (conditions that do not look at the entry stay open: they decide nothing here)
                    bad.append(((de, flag), hir.fmt(v, 40)))
        ctx.check(rule, "root-answers-from-the-table-only-with-a-deep-exact-entry", not bad, fn=fn["path"], file=fn["file"], line=hir.line(r),
                  what="the root hands back a cached result that is not exact or not as deep as the iteration: the search does not look as "
                       "far ahead as it was asked to", expected="entry.depth >= depth && entry.flag == Exact",
                  found=bad[:4])
    # (no floor: a root that never answers from the table has nothing to get wrong here)


def n7(ctx, F, rule="C10.N7"):
    """N7 inside the tree a stored result ends a node only when it is sound for the window asked for: an entry at least as deep as
    the remaining depth that is exact, or a lower bound at or above beta, or an upper bound at or below alpha.  Anything else (a
    bound inside the window taken for a value, a shallower result) hands the parent a score no search of that depth supports -
    from a fresh table the entries of the previous iteration then decide the next one, and a mate inside the horizon can be hidden
    behind such a score.  Decided by cases over (entry depth, kind of entry, stored score against the window)."""
    fn = F.fn("search::get_best_move_score")
    body = fn["hir"]["body"]
    sym = hir.Sym(hir.Env(fn["hir"], F), F)
    SOME = "std::prelude::v1::Some"
    rets = []
    for r, anc in hir.walk(body):
        if r.get("k") != "Ret" or r.get("e") is None or any(a_.get("k") == "Loop" for a_ in anc):
            continue
        g = hir.guards_of(r, body, sym) or []
        term = hir.guards_term(g)
        gets = [t_ for t_ in hir.subterms(term) if isinstance(t_, tuple) and t_[:1] == ("call",) and str(t_[1]).endswith("HashMap::<K, V, S, A>::get")]
        if not gets:
            continue
        names_e = {nm for g_ in g if g_[0] == "if" and isinstance(g_[1], tuple) and g_[1][:1] == ("let",) and
                   any(x_ in gets for x_ in hir.subterms(g_[1][2])) for nm in (g_[1][3] if len(g_[1]) > 3 else ())}
        rv = sym(r["e"])
        if not any(isinstance(t_, tuple) and t_[:1] == ("field",) and t_[1][:1] == ("var",) and t_[1][1] in names_e for t_ in hir.subterms(rv)):
            continue
        t1 = hir.fold(term, {g_: ("ctor", SOME, (("var", "ENTRY"),)) for g_ in gets})
        rets.append((r, t1))
    if not rets:
        return          # a node that never answers from the table has nothing to get wrong here
    depth_names = [str(p_["pat"].get("name", "")).split("'")[0] for p_ in fn["hir"].get("params", []) if isinstance(p_.get("pat"), dict)]
    depth_names = [n_ for n_ in depth_names if "depth" in n_ and "real" not in n_] or ["remaining_depth"]
    bad = []
    for de in (4, 5, 6):
        for flag in ("Exact", "LowerBound", "UpperBound"):
            for sc in (-100, -50, 0, 50, 100):
                fired = False
                shown = None
                for r, t1 in rets:
                    flds = {t_ for t_ in hir.subterms(t1) if isinstance(t_, tuple) and t_[:1] == ("field",) and t_[1] == ("var", "ENTRY")}
                    a = {("var", "alpha"): ("lit", -50), ("var", "beta"): ("lit", 50), ("var", "initial_alpha"): ("lit", -50)}
                    for dn in depth_names or ["remaining_depth"]:
                        a[("var", dn)] = ("lit", 5)
                    for f_ in flds:
                        if f_[2] == "depth":
                            a[f_] = ("lit", de)
                        if f_[2] == "flag":
                            a[f_] = ("variant", "search::NodeType::" + flag)
                        if f_[2] == "score":
                            a[f_] = ("lit", sc)
                    v = hir.fold(hir.fold(t1, a), a)
                    if not (v == ("lit", False) or hir.all_leaves_false(v)):
                        fired = True
                        shown = hir.fmt(v, 40)
                want = de >= 5 and (flag == "Exact" or (flag == "LowerBound" and sc >= 50) or (flag == "UpperBound" and sc <= -50))
                if fired and not want:      # (a node that declines a usable entry only searches more: nothing to report)
                    bad.append(({"entry depth": de, "asked": 5, "kind": flag, "score": sc, "window": (-50, 50)}, "answers", shown))
    r0 = rets[0][0]
    ctx.check(rule, "node-answers-from-the-table-only-when-the-entry-settles-the-window", not bad, fn=fn["path"], file=fn["file"], line=hir.line(r0),
              what="a node hands back a stored result that does not settle the window it was asked about (a bound inside the window, "
                   "a bound on the wrong side, or a shallower result): the parent gets a score no search of that depth supports", expected="entry.depth >= remaining_depth && (Exact || Lower && score >= beta || Upper && score <= alpha)",
              found=bad[:4])


def n8(ctx, F, rule="C10.N8"):
    """N8 what a node stores says what its search established, against the window it was *asked* about: a result at or below the
    alpha it was entered with is an upper bound (never exact, never a lower bound), one at or above beta a lower bound (never exact,
    never an upper bound), and the stored depth is not more than the depth searched.  (N7 trusts exactly this labelling.)"""
    fn = F.fn("search::get_best_move_score")
    body = fn["hir"]["body"]
    env = hir.Env(fn["hir"], F)
    sym = hir.Sym(env, F)
    lits = [n for n, _ in hir.walk(body) if n.get("k") == "Struct" and str((n.get("to") or {}).get("path", n.get("ty", ""))).endswith("TableEntry")
            or (n.get("k") == "Struct" and str(n.get("ty", "")).endswith("TableEntry"))]
    if not lits:
        return
    pnames = {}
    for p_ in fn["hir"].get("params", []):
        if isinstance(p_.get("pat"), dict) and p_["pat"].get("name"):
            pnames[p_["pat"].get("id")] = str(p_["pat"]["name"]).split("'")[0]
    assigned = {}       # param id -> first place it is assigned
    for n, _ in hir.walk(body):
        if n.get("k") in ("Assign", "AssignOp"):
            tgt = n.get("l") or n.get("lhs") or n.get("place") or {}
            if tgt.get("k") == "Path" and (tgt.get("to") or {}).get("res") == "local" and tgt["to"].get("id") in pnames:
                k_ = hir.order_key(n)
                assigned[tgt["to"]["id"]] = min(assigned.get(tgt["to"]["id"], k_), k_)
    depth_names = [n_ for n_ in pnames.values() if "depth" in n_ and "real" not in n_] or ["remaining_depth"]
    for lit in lits:
        fl = {f_["name"]: f_["e"] for f_ in lit.get("fields", [])}
        if "flag" not in fl:
            continue
        # does the classification read a window bound that has been moved since the node was entered?
        moved = sorted({pnames[n["to"]["id"]] for n, _ in hir.walk(fl["flag"]) if n.get("k") == "Path" and (n.get("to") or {}).get("res") == "local"
                        and n["to"].get("id") in assigned and assigned[n["to"]["id"]] < hir.order_key(lit)})
        ft = sym(fl["flag"])
        bad = []
        for sc in (-100, -50, 0, 50, 100):
            a = {("var", "alpha"): ("lit", -50), ("var", "beta"): ("lit", 50), ("var", "initial_alpha"): ("lit", -50), ("var", "best_score"): ("lit", sc)}
            v = hir.fold(hir.fold(ft, a), a)
            kind = str(v[1]).split("::")[-1] if isinstance(v, tuple) and v[:1] == ("variant",) else None
            if kind is None:
                continue        # (classified from something else than the score and the window: undecided here)
            if (sc <= -50 and kind in ("Exact", "LowerBound")) or (sc >= 50 and kind in ("Exact", "UpperBound")):
                bad.append(({"score": sc, "window on entry": (-50, 50)}, kind))
        ok_d = True
        dfound = None
        if "depth" in fl:
            a = {("var", dn): ("lit", 5) for dn in depth_names}
            dv = hir.fold(hir.fold(sym(fl["depth"]), a), a)
            dfound = hir.fmt(dv, 40)
            if isinstance(dv, tuple) and dv[:1] == ("lit",) and isinstance(dv[1], int) and dv[1] > 5:
                ok_d = False
        ctx.check(rule, "stored-bound-kind-matches-the-window-the-node-was-asked-about", not bad and not moved and ok_d, fn=fn["path"], file=fn["file"],
                  line=hir.line(lit),
                  what="the entry a node stores is labelled against the wrong window (a fail-low result stored as exact / lower bound, a "
                       "fail-high result as exact / upper bound, the label computed from a bound the loop has moved since, or a depth "
                       "larger than searched): a later visit takes it for more than the search established",
                  expected="score <= alpha on entry -> UpperBound; score >= beta -> LowerBound; depth <= remaining depth",
                  found={"unsound labels": bad[:4], "bounds moved before the label is computed": moved, "stored depth for depth 5": dfound})


def n9(ctx, F, rule="C10.N9"):
    """N9 a node gives up only when told to: in the two search functions that can be aborted (their result is an Option) the abort
    value is returned only under the lowered stop flag, or handed on from a child that gave up (`?`).  An abort value returned for
    any other reason (a table hit, an empty list) ends the whole iteration: the driver keeps the previous, shallower result and the
    depth asked for is never searched."""
    n = 0
    for path in ("search::get_best_move_score", "search::get_best_move_entry"):
        fn = F.fn(path)
        if not fn.get("hir") or not str(fn.get("output", "")).startswith("std::option::Option<"):
            continue
        body = fn["hir"]["body"]
        sym = hir.Sym(hir.Env(fn["hir"], F), F)
        bad = []
        for r, anc in hir.walk(body):
            if r.get("k") != "Ret" or r.get("e") is None or any(str(a_.get("src", "")).startswith("TryDesugar") for a_ in anc):
                continue
            if sym(r["e"]) != ("variant", "std::prelude::v1::None"):
                continue
            n += 1
            g = hir.guards_of(r, body, sym) or []
            def lowered(x):
                # the flag test with the polarity "not running": `load(..)` false, or `!load(..)` true
                t_ = x[1]
                neg = False
                while isinstance(t_, tuple) and t_[:1] in (("not",),) or (isinstance(t_, tuple) and t_[:2] == ("un", "!")):
                    t_ = t_[-1]
                    neg = not neg
                txt = hir.fmt(t_, 200)
                return x[0] == "if" and "load(" in txt and ("continue_running" in txt or "Atomic" in txt) and (x[2] is False) != neg
            told = any(lowered(x) for x in g)
            if not told:
                bad.append(hir.line(r))
        tail = hir.strip(body).get("expr") if hir.strip(body).get("k") == "Block" else None
        if tail is not None and sym(tail) == ("variant", "std::prelude::v1::None"):
            bad.append(hir.line(tail))
        ctx.check(rule, "abort-value-only-under-the-stop-flag:%s" % path.split("::")[-1], not bad, fn=path, file=fn["file"], line=bad[0] if bad else fn["span"][0],
                  what="a search function returns its abort value where nobody asked it to stop: the iteration is thrown away and the "
                       "driver answers from a shallower one", expected="return None only under !continue_running.load(..)", found=bad)
    ctx.floor(rule, "explicit abort returns in the search functions", n, 1)


def run_rest(ctx, F, ks):
    n4(ctx, F)
    n6(ctx, F)
    n7(ctx, F)
    n8(ctx, F)
    n9(ctx, F)
    # N5: a mating move can stand anywhere in the ordered list and need not look tactical: every generated move must be searched
    # unless a cut-off ends the node (forward pruning hides quiet and discovered mates) - the census of loop exits of C09.B3
    from . import p09
    from .p16 import relabel
    before, nv = len(ctx.instances), len(ctx.violations)
    p09.b3(ctx, F, {p_: p09.Node(F, p_) for p_ in p09.NODES})
    relabel(ctx, before, nv, "C10.N5")
    # N2
    drv = F.fn(DRIVER)
    env = hir.Env(drv["hir"], F)
    sym = hir.Sym(env, F)
    hi = lo = None
    for n, anc in hir.walk(drv["hir"]["body"]):
        if n.get("k") == "Binary" and n["op"] in (">", "<"):
            l, r = sym(n["l"]), sym(n["r"])
            if l == ("var", "best_score") and r[0] == "bin":
                base = hir.fmt(r[2], 40)
                k = hir.sym_int(r[3])
                if n["op"] == ">" and r[1] == "-" and base.endswith("MAX"):
                    hi = k
                if n["op"] == "<" and r[1] == "+" and base.endswith("MIN"):
                    lo = k
    maxd = F.const_int("search::MAX_DEPTH") if "search::MAX_DEPTH" in F.consts else None
    QD = 48
    D = (maxd or 255) + QD
    kc, k1, kq = ks.get("search::get_best_move_score"), ks.get("search::get_best_move_score_depth_1"), ks.get("search::quiescence_search")
    ok = None not in (hi, lo, kc, k1, kq) and hi == lo and kc + D < hi and k1 - 1 >= hi and kq - 1 >= hi and (-32768 + max(kc, k1, kq) + D) < 0
    ctx.check("C10.N2", "mate-constants-vs-exit-thresholds", ok, fn=DRIVER, file=drv["file"],
              what="a verified mate (checked list, K=%s) must always end the iteration loop and an unverified one (K=%s / %s) never: "
                   "K_checked + max distance < threshold <= K_unverified - 1" % (kc, k1, kq),
              expected="K_checked + %d < T <= K_depth1 - 1, K_quiescence - 1" % D, found={"T_hi": hi, "T_lo": lo, "K": (kc, k1, kq), "max distance": D})
    # the exit test is evaluated on the score of the iteration just completed
    cond_ok = False
    for n, anc in hir.walk(drv["hir"]["body"]):
        if n.get("k") == "If" and "best_score" in hir.fmt(sym(n["cond"]), 400) and "MAX" in hir.fmt(sym(n["cond"]), 400):
            rets = [r for r, _ in hir.walk(n["then"]) if r.get("k") == "Ret"]
            cond_ok = len(rets) == 1 and sum(1 for a in anc if a.get("k") == "Loop") == 1
            # by value: with no depth limit and several moves the test fires for a score inside either mate band and for nothing else
            c0 = hir.resolve_std_ints(hir.resolve_consts(sym(n["cond"]), F))
            base_a = {("var", "is_only_move"): ("lit", False), ("var", "max_depth"): ("variant", "std::prelude::v1::None")}
            for val, want in ((32767 - 150, True), (-32768 + 150, True), (0, False), (5000, False), (-5000, False), (32767 - 2500, False), (-32768 + 2500, False)):
                a_ = dict(base_a)
                a_[("var", "best_score")] = ("lit", val)
                v_ = hir.fold(hir.fold(c0, a_), a_)
                if v_ != ("lit", want):
                    cond_ok = False
    ctx.check("C10.N2", "driver-stops-by-itself-on-a-forced-mate", cond_ok, fn=DRIVER, file=drv["file"],
              what="the driver must return when the completed iteration reports a forced mate", found=cond_ok)
    ctx.assume("real distance from the root <= MAX_DEPTH + %d (quiescence extension under sane material)" % QD)
    # N3
    entry = F.fn("search::get_best_move_entry")
    pv = Prov(entry, F)
    body = entry["hir"]["body"]
    specials = []
    for n, anc in hir.walk(body):
        if n.get("k") == "MethodCall" and n["name"] == "is_empty" and hir.strip(n["recv"]).get("to", {}).get("name") in pv.buffers:
            specials.append(hir.line(n))
    init = [hir.fmt(pv.sym(d), 40) for d in pv.defs.get("best_move", [])[:1]]
    ctx.check("C10.N3", "empty-root-list=>None", not specials and init == ["v1::None"], fn=entry["path"], file=entry["file"],
              what="with an empty checked root list the entry point must return no move (best_move stays None; the loop never runs)",
              found={"special-cased is_empty": specials, "best_move initial": init})
    before, nv = len(ctx.instances), len(ctx.violations)
    p06.p1(ctx, F)
    p06.p6(ctx, F)
    p06.p5(ctx, F)
    for i in ctx.instances[before:]:
        i["rule"] = "C10.N3(" + i["rule"] + ")"
    for v in ctx.violations[nv:]:
        v["rule"] = "C10.N3(" + v["rule"] + ")"
        v["key"] = "C10.N3|" + v["key"]


def n4(ctx, F):
    """Return census of the three search siblings: every `return` (and the tail) is one of the enumerated kinds, so that nothing
    pre-empts the no-move leaf rule (a draw/shortcut return placed before it hides mates: the node never looks at its moves)."""
    for path in SIBS:
        fn = F.fn(path)
        env = hir.Env(fn["hir"], F)
        sym = hir.Sym(env, F)
        body = fn["hir"]["body"]
        rets = hir.return_leaves(body)
        tail = hir.strip(body).get("expr")
        kinds = []
        unknown = []
        for n, e, wr in rets:
            v = hir.resolve_consts(hir.wrap_value(sym(e), wr), F) if e is not None else ("unit",)
            g = [(hir.fmt(hir.canon(x[1]), 200), x[2]) for x in (hir.guards_of(e if e is not None else n, body, sym) or []) if x[0] == "if"]
            gt = [t for t, p in g if p is True]
            gf = [t for t, p in g if p is False]
            vt = hir.fmt(v, 160)
            kind = None
            if vt == "v1::None" and any("load(continue_running" in t for t in gf):
                kind = "abort"
            elif "from_residual" in vt:
                kind = "abort-propagation"
            elif any(t.startswith("let(v1::Some, <K, V, S, A>::get(table, Game::hash(game))") for t in gt):
                # anything returned inside the table probe is the table's business (C06/C09 leave the table aside; the probe
                # itself is not a shortcut that hides the node's moves: it answers from a stored search of this position)
                kind = "table-hit"
            elif vt.startswith("v1::Some(search::get_best_move_score_depth_1(") and "(remaining_depth == 1)" in gt:
                kind = "depth-1-dispatch"
            elif vt.startswith("v1::Some(search::quiescence_search(") and "(remaining_depth == 0)" in gt:
                kind = "quiescence-dispatch"
            elif any(t.endswith("is_empty(moves)") for t in gt):
                kind = "no-move-leaf"
            elif vt == "beta" and ("(beta <= alpha)" in gt or "(alpha >= beta)" in gt):
                kind = "beta-cutoff"
            if kind is None:
                unknown.append((hir.line(n), vt, gt[-2:]))
            kinds.append(kind)
        tail_t = hir.fmt(sym(tail), 60) if tail is not None else None
        ok_tail = tail_t in ("alpha", "v1::Some(alpha)")
        ctx.check("C10.N4", "only-enumerated-returns:%s" % path.split("::")[-1], not unknown and ok_tail, fn=path, file=fn["file"],
                  line=unknown[0][0] if unknown else fn["span"][0],
                  what="a search node returns through a path that is none of: abort, table hit, depth dispatch, no-move leaf, beta cut-off, "
                       "final alpha. A shortcut return (draw recognition, repetition, pruning) placed before the no-move leaf means the node "
                       "never looks at its moves, so a checkmate there is scored like any other position",
                  expected="abort | table-hit | depth-1/quiescence dispatch | no-move leaf | beta-cutoff | tail alpha",
                  found={"unknown returns": unknown, "tail": tail_t})
        ctx.check("C10.N4", "leaf-rule-present:%s" % path.split("::")[-1], kinds.count("no-move-leaf") == 2, fn=path, file=fn["file"],
                  what="the no-move leaf must have exactly its two outcomes (draw / mate score)", found=kinds.count("no-move-leaf"), nontrivial=False)
