"""Semantic model of Game::push / Game::pop: what they do to the board, the king cache, the castling rights and the
en-passant file, decided per concrete move case.

Both functions are loop-free.  `hir.Exec` summarises them symbolically (helpers already expanded by rules/inline.py): every
`self.set_position(sq, content)` / `self.set_king_position(player, sq)` is recorded as an ordered update term, every
GameState setter on the state copy as a store to a pseudo field.  For each case of a table of concrete moves (kind x owner
x piece x squares, with the board content the case needs) the summary is folded under the case's assumptions - the move
value, the side to move, the squares read - into concrete update lists, which are compared with the successor the rules of
chess prescribe (forward oracle) and, for pop, with the pre-move board (inverse oracle).  Nothing of the engine is executed:
this is partial evaluation of the source under a finite case split.
"""
from . import hir
from .common import chess_evalcalls, discr_map, position_values

PL = "chess::Player::"
PT = "chess::piece::PieceType::"
PCE = "chess::piece::Piece"
MV = "chess::move_struct::Move::"
GS = "chess::gamestate::GameState::"
SOME, NONE = "std::prelude::v1::Some", ("variant", "std::prelude::v1::None")
RIGHTS = {"white_king": "wk", "white_queen": "wq", "black_king": "bk", "black_queen": "bq"}


def piece(kind, owner):
    return ("struct", PCE, (("owner", ("variant", PL + owner)), ("piece_type", ("variant", PT + kind))))


def some(x):
    return ("ctor", SOME, (x,))


def pos(r, c):
    return ("pos", r, c)


def other(o):
    return "Black" if o == "White" else "White"


class Summary:
    def __init__(self, fn, F):
        self.fn, self.F = fn, F
        ex = hir.Exec(fn["hir"], F)
        ex.setters = {GS + "set_en_passant": ("ep", None)}
        for long, short in RIGHTS.items():
            ex.setters[GS + "set_%s_castling_false" % long] = (short, ("lit", False))
            ex.setters[GS + "set_%s_castling_true" % long] = (short, ("lit", True))
        ex.recorders = {"chess::Game::set_position": "@board", "chess::Game::set_king_position": "@king"}
        ex.run()
        self.store = ex.store
        self.mvname = fn["hir"]["params"][1]["pat"].get("name")
        self.D = discr_map(F)
        self.helpers = hir.table_helpers(F)

    def field(self, name, local=None):
        ks = [k for k in self.store if isinstance(k, tuple) and k[0] == "fieldstore" and k[2] == name and (local is None or k[1] == local)]
        return self.store[ks[0]] if len(ks) == 1 else None

    def eval(self, term, mv, owner, board):
        a = {("var", self.mvname): mv, ("field", ("var", "self"), "current_player"): ("variant", PL + owner),
             ("call", "chess::Game::player", (("var", "self"),)): ("variant", PL + owner)}
        return hir.fold(position_values(hir.resolve_consts(term, self.F), self.F), a, self.D, self.helpers, chess_evalcalls(board))


def right_bits(F):
    """{short right name: bit of GameState.bitfield}, read off the reference getters (`white_king_castling(&self) -> bool` ...) by
    evaluating each on the eight one-bit values of the byte; None when a getter does not select exactly one bit"""
    out = {}
    for long, short in RIGHTS.items():
        fn = F.fns.get(GS + "%s_castling" % long)
        if fn is None:
            return None
        try:
            nf = hir.summarize(fn, F)
        except hir.Unsupported:
            return None
        bits = []
        for b in range(8):
            v = hir.fold(nf, {("field", ("var", "self"), "bitfield"): ("lit", 1 << b)})
            if v == ("lit", True):
                bits.append(b)
            elif v != ("lit", False):
                return None
        if len(bits) != 1:
            return None
        out[short] = bits[0]
    return out if len(set(out.values())) == 4 else None


def updates(t):
    """[(arg, arg, ..)] of a folded chain of ("rec", previous, args...) terms, oldest first; None if it is not a plain chain"""
    out = []
    while isinstance(t, tuple) and t and t[0] == "rec":
        out.append(tuple(t[2:]))
        t = t[1]
    if t != ("var", "@start"):
        return None
    return list(reversed(out))


def move_cases():
    """(name, move normal form, owner, pre-move board {(r,c): content}, expected) with
    expected = {"board": {(r,c): content}, "king": (owner, (r,c)) or None, "rights_cleared": set of short names}"""
    cases = []

    def normal(name, owner, kind, s, e, captured=None, cleared=(), king=False, may=()):
        pc = piece(kind, owner)
        cap = some(captured) if captured is not None else NONE
        mv = ("struct", MV + "Normal", (("captured_piece", cap), ("end", pos(*e)), ("piece", pc), ("start", pos(*s))))
        pre = {s: some(pc), e: cap}
        cases.append((name, mv, owner, pre, {"board": {s: NONE, e: some(pc)}, "king": (owner, e) if king else None, "cleared": set(cleared),
                                            "may": set(may)}))
    normal("knight b1-c3", "White", "Knight", (0, 1), (2, 2))
    normal("knight g8-f6", "Black", "Knight", (7, 6), (5, 5))
    normal("king e1-e2", "White", "King", (0, 4), (1, 4), cleared=("wk", "wq"), king=True)
    normal("king e8-d8", "Black", "King", (7, 4), (7, 3), cleared=("bk", "bq"), king=True)
    normal("king takes on f2", "White", "King", (0, 4), (1, 5), captured=piece("Pawn", "Black"), cleared=("wk", "wq"), king=True)
    normal("rook a1-a4", "White", "Rook", (0, 0), (3, 0), cleared=("wq",))
    normal("rook h1-h5", "White", "Rook", (0, 7), (4, 7), cleared=("wk",))
    normal("rook a8-a5", "Black", "Rook", (7, 0), (4, 0), cleared=("bq",))
    normal("rook h8-g8", "Black", "Rook", (7, 7), (7, 6), cleared=("bk",))
    normal("rook d4-d5", "White", "Rook", (3, 3), (4, 3))
    # a rook on a corner of the other side (a second rook, a promoted one): leaving it costs the mover nothing
    normal("white rook a8-a7", "White", "Rook", (7, 0), (6, 0), may=("bq",))
    normal("white rook h8-h6", "White", "Rook", (7, 7), (5, 7), may=("bk",))
    normal("black rook a1-b1", "Black", "Rook", (0, 0), (0, 1), may=("wq",))
    normal("black rook h1-h2", "Black", "Rook", (0, 7), (1, 7), may=("wk",))
    # other pieces on corners and king squares
    normal("queen a1-a5", "White", "Queen", (0, 0), (4, 0), may=("wq",))
    normal("bishop h8-g7", "Black", "Bishop", (7, 7), (6, 6), may=("bk",))
    # (while a side still has a right its king stands on its home square: a right "lost" by another piece leaving that square was
    # not there)
    normal("rook e8-c8 (white rook on the black king square)", "White", "Rook", (7, 4), (7, 2), may=("bk", "bq"))
    normal("queen e1-g1 (black queen on the white king square)", "Black", "Queen", (0, 4), (0, 6), may=("wk", "wq"))
    normal("rook takes bishop on h1", "Black", "Rook", (4, 7), (0, 7), captured=piece("Bishop", "White"), may=("wk",))
    normal("knight takes queen on a8", "White", "Knight", (5, 1), (7, 0), captured=piece("Queen", "Black"), may=("bq",))
    normal("bishop takes rook h8", "White", "Bishop", (1, 1), (7, 7), captured=piece("Rook", "Black"), cleared=("bk",))
    normal("queen takes rook a8", "White", "Queen", (0, 0 + 3), (7, 0), captured=piece("Rook", "Black"), cleared=("bq",))
    normal("knight takes rook a1", "Black", "Knight", (2, 1), (0, 0), captured=piece("Rook", "White"), cleared=("wq",))
    normal("bishop takes rook h1", "Black", "Bishop", (6, 1), (0, 7), captured=piece("Rook", "White"), cleared=("wk",))
    normal("rook a1 takes rook a8", "White", "Rook", (0, 0), (7, 0), captured=piece("Rook", "Black"), cleared=("wq", "bq"))
    normal("pawn takes d5", "White", "Pawn", (3, 4), (4, 3), captured=piece("Pawn", "Black"))
    normal("pawn e2-e3", "White", "Pawn", (1, 4), (2, 4))

    def promo(name, owner, s, e, new, captured=None, cleared=()):
        cap = some(captured) if captured is not None else NONE
        mv = ("struct", MV + "Promotion", (("captured_piece", cap), ("end", pos(*e)), ("new_piece", ("variant", PT + new)),
                                           ("owner", ("variant", PL + owner)), ("start", pos(*s))))
        pre = {s: some(piece("Pawn", owner)), e: cap}
        cases.append((name, mv, owner, pre, {"board": {s: NONE, e: some(piece(new, owner))}, "king": None, "cleared": set(cleared)}))
    promo("b7-b8=Q", "White", (6, 1), (7, 1), "Queen")
    promo("b7xa8=N", "White", (6, 1), (7, 0), "Knight", captured=piece("Rook", "Black"), cleared=("bq",))
    promo("g7xh8=R", "White", (6, 6), (7, 7), "Rook", captured=piece("Rook", "Black"), cleared=("bk",))
    promo("g2xh1=B", "Black", (1, 6), (0, 7), "Bishop", captured=piece("Rook", "White"), cleared=("wk",))
    promo("b2xa1=Q", "Black", (1, 1), (0, 0), "Queen", captured=piece("Rook", "White"), cleared=("wq",))
    promo("c2xd1=Q", "Black", (1, 2), (0, 3), "Queen", captured=piece("Queen", "White"))
    for owner, r0, r1 in (("White", 4, 5), ("Black", 3, 2)):
        for sc, ec in ((4, 3), (4, 5), (0, 1), (7, 6)):
            mv = ("struct", MV + "EnPassant", (("end_col", ("lit", ec)), ("owner", ("variant", PL + owner)), ("start_col", ("lit", sc))))
            pre = {(r0, sc): some(piece("Pawn", owner)), (r1, ec): NONE, (r0, ec): some(piece("Pawn", other(owner)))}
            cases.append(("en passant %s %d->%d" % (owner, sc, ec), mv, owner, pre,
                          {"board": {(r0, sc): NONE, (r1, ec): some(piece("Pawn", owner)), (r0, ec): NONE}, "king": None, "cleared": set()}))
    for owner, row, kk, qq in (("White", 0, "wk", "wq"), ("Black", 7, "bk", "bq")):
        for variant, kc, r_from, r_to in (("CastlingShort", 6, 7, 5), ("CastlingLong", 2, 0, 3)):
            mv = ("struct", MV + variant, (("owner", ("variant", PL + owner)),))
            pre = {(row, 4): some(piece("King", owner)), (row, r_from): some(piece("Rook", owner)), (row, kc): NONE, (row, r_to): NONE}
            cases.append(("%s %s" % (variant, owner), mv, owner, pre,
                          {"board": {(row, 4): NONE, (row, r_from): NONE, (row, kc): some(piece("King", owner)), (row, r_to): some(piece("Rook", owner))},
                           "king": (owner, (row, kc)), "cleared": {kk, qq}}))
    return cases


def board_after(ups, problems, what):
    """final content per square of an ordered list of (square, content) writes (concrete squares only)"""
    out = {}
    if ups is None:
        problems.append("%s: board updates do not fold to a plain sequence" % what)
        return None
    for u in ups:
        if len(u) != 2 or u[0][:1] != ("pos",):
            problems.append("%s: write to a square that is not concrete: %s" % (what, hir.fmt(u[0], 60)))
            return None
        out[(u[0][1], u[0][2])] = u[1]
    return out


def king_after(ups, problems, what):
    out = {}
    if ups is None:
        problems.append("%s: king-cache updates do not fold to a plain sequence" % what)
        return None
    for u in ups:
        if len(u) != 2 or u[0][0] != "variant" or u[1][:1] != ("pos",):
            problems.append("%s: king-cache update that is not concrete: %s" % (what, hir.fmt(u, 80)))
            return None
        out[u[0][1][len(PL):]] = (u[1][1], u[1][2])
    return out


def check_push(F):
    """[(case name, problem text)] and the number of cases, for the forward oracle."""
    fn = F.fn("chess::Game::push")
    S = Summary(fn, F)
    B, K = S.field("@board", "self"), S.field("@king", "self")
    bad = []
    cases = move_cases()
    for name, mv, owner, pre, exp in cases:
        probs = []
        board = dict(pre)
        b = board_after(updates(S.eval(B, mv, owner, board)) if B is not None else [], probs, "board")
        if b is not None and b != exp["board"]:
            probs.append("board becomes %s, the rules prescribe %s" % (show_board(b), show_board(exp["board"])))
        k = king_after(updates(S.eval(K, mv, owner, board)) if K is not None else [], probs, "king cache")
        want_k = {exp["king"][0]: exp["king"][1]} if exp["king"] else {}
        if k is not None and k != want_k:
            probs.append("cached king squares set to %s, expected %s" % (k, want_k))
        cleared = set()
        bf = S.field("bitfield")
        if bf is not None and all(S.field(short) is None for short in RIGHTS.values()):
            # the rights are cleared by mask operations on the state byte (no per-right setter): evaluate the byte from "all rights
            # held" and read the four bits back through the reference getters
            bits = right_bits(F)
            init = {t_: ("lit", 0xFF) for t_ in hir.subterms(bf) if isinstance(t_, tuple) and t_[:1] == ("field",) and t_[-1] == "bitfield"}
            v = hir.fold(S.eval(hir.subst(bf, init), mv, owner, board), {}) if bits else None
            if v is None or v[0] != "lit" or not isinstance(v[1], int):
                probs.append("castling rights: the state byte after the move is undecided (%s)" % (hir.fmt(v, 80) if v else "no getter table"))
            else:
                cleared = {short for short, b in bits.items() if not (v[1] >> b) & 1}
        for long, short in RIGHTS.items():
            t = S.field(short)
            if t is None:
                continue
            v = S.eval(t, mv, owner, board)
            if v == ("lit", False):
                cleared.add(short)
            elif v == ("lit", True):
                probs.append("right %s is granted by a move" % short)
            elif not (isinstance(v, tuple) and v[:1] in (("var",), ("field",), ("call",))):
                probs.append("right %s: undecided (%s)" % (short, hir.fmt(v, 80)))
        # "may": rights whose loss changes nothing in any reachable position (the right of a corner an enemy piece stands on)
        if cleared - exp.get("may", set()) != exp["cleared"]:
            probs.append("castling rights cleared: %s, the rules prescribe %s" % (sorted(cleared), sorted(exp["cleared"])))
        for p_ in probs:
            bad.append((name, p_))
    return bad, len(cases)


def show_board(b):
    def c(v):
        if v == NONE:
            return "-"
        if v[0] == "ctor" and v[2][0][0] == "struct":
            d = dict(v[2][0][2])
            return "%s %s" % (d["owner"][1].split("::")[-1], d["piece_type"][1].split("::")[-1])
        return hir.fmt(v, 50)
    return {"%s%d" % ("abcdefgh"[k[1]], k[0] + 1): c(v) for k, v in sorted(b.items())}


def check_pop(F):
    """pop after push restores the pre-move content of every square push wrote, and the king cache."""
    push, pop = F.fn("chess::Game::push"), F.fn("chess::Game::pop")
    SP, SQ = Summary(push, F), Summary(pop, F)
    B1, K1 = SP.field("@board", "self"), SP.field("@king", "self")
    B2, K2 = SQ.field("@board", "self"), SQ.field("@king", "self")
    bad = []
    cases = move_cases()
    for name, mv, owner, pre, exp in cases:
        probs = []
        b1 = board_after(updates(SP.eval(B1, mv, owner, dict(pre))) if B1 is not None else [], probs, "push")
        # pop runs with the side to move already flipped back inside pop (it flips first): the mover is `owner` again after the flip;
        # before the flip current_player is the opponent
        after = dict(pre)
        after.update(b1 or {})
        v2 = SQ.eval(B2, mv, other(owner), after) if B2 is not None else ("var", "@start")
        b2 = board_after(updates(v2), probs, "pop")
        if b1 is not None and b2 is not None:
            final = dict(after)
            final.update(b2)
            diff = {k: (final.get(k), pre.get(k)) for k in set(b1) | set(b2) if final.get(k) != pre.get(k, NONE) and not (k not in pre and final.get(k) == NONE)}
            if diff:
                probs.append("after push and pop the board differs from before on %s" % {("%s%d" % ("abcdefgh"[k[1]], k[0] + 1)): show_board({k: v[0]}) for k, v in diff.items()})
        k1 = king_after(updates(SP.eval(K1, mv, owner, dict(pre))) if K1 is not None else [], probs, "push king cache")
        k2 = king_after(updates(SQ.eval(K2, mv, other(owner), after)) if K2 is not None else [], probs, "pop king cache")
        if k1 is not None and k2 is not None:
            for pl_, sq in k1.items():
                # the king stood on the square the case says
                home = [k for k, v in pre.items() if v == some(piece("King", pl_))]
                if not home or k2.get(pl_) != home[0]:
                    probs.append("push moves the cached %s king to %s, pop puts it on %s (it came from %s)" % (pl_, sq, k2.get(pl_), home[0] if home else "?"))
            for pl_ in k2:
                if pl_ not in k1:
                    probs.append("pop moves the cached %s king although push did not" % pl_)
        for p_ in probs:
            bad.append((name, p_))
    return bad, len(cases)


def en_passant_rows(F):
    """{owner: {"old": row the capturing pawn leaves, "new": row it lands on, "taken": row of the pawn removed}} read off the
    folded board updates of push for an en-passant capture, or None."""
    fn = F.fn("chess::Game::push")
    try:
        S = Summary(fn, F)
    except hir.Unsupported:
        return None
    B = S.field("@board", "self")
    if B is None:
        return None
    out = {}
    for owner in ("White", "Black"):
        sc, ec = 4, 3
        mv = ("struct", MV + "EnPassant", (("end_col", ("lit", ec)), ("owner", ("variant", PL + owner)), ("start_col", ("lit", sc))))
        ups = updates(S.eval(B, mv, owner, {}))
        if ups is None:
            return None
        d = {}
        for u in ups:
            if len(u) != 2 or u[0][:1] != ("pos",):
                return None
            r, c = u[0][1], u[0][2]
            if u[1] == NONE and c == sc:
                d["old"] = r
            elif u[1] == NONE and c == ec:
                d["taken"] = r
            elif u[1] != NONE and c == ec:
                d["new"] = r
        if set(d) != {"old", "new", "taken"}:
            return None
        out[owner] = d
    return out
