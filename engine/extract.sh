#!/bin/bash
# usage: extract.sh <repo dir> <out json> [extra RUSTFLAGS] ; extracts compiler facts without running anything from the repo
set -euo pipefail
REPO=${1:?repo}; OUT=${2:?out}; EXTRA=${3:-}
HERE=$(cd "$(dirname "$0")" && pwd)
DRV=$HERE/target/release/chessfacts
[ -x "$DRV" ] || (cd "$HERE" && cargo build --release --offline >&2)
T=$(mktemp -d /tmp/chessfacts.XXXXXX)
trap 'rm -rf "$T"' EXIT
SYSROOT=$(rustc +nightly --print sysroot)
cd "$REPO"
if ! LD_LIBRARY_PATH=$SYSROOT/lib CARGO_NET_OFFLINE=true \
   RUSTFLAGS="-Zmir-opt-level=0 -Awarnings $EXTRA" \
   RUSTC_WORKSPACE_WRAPPER=$DRV CHESSFACTS_OUT=$T/facts.json CHESSFACTS_CRATE=rustybait \
   CARGO_TARGET_DIR=$T/target cargo +nightly check --offline --bins >$T/log 2>&1; then
  cat $T/log >&2; echo "extract: cargo check failed" >&2; exit 3
fi
[ -s $T/facts.json ] || { cat $T/log >&2; echo "extract: no fact file produced" >&2; exit 3; }
mv $T/facts.json "$OUT"
