//! Typed HIR serialiser: expression trees with resolved callees / paths / literal
//! values / types, closures inlined at their use site.

use crate::json::J;
use crate::{path_str, span_json, ty_str};
use rustc_hir as hir;
use rustc_hir::def::{DefKind, Res};
use rustc_hir::def_id::LocalDefId;
use rustc_middle::ty::{self, TyCtxt, TypeckResults};

pub fn dump_body<'tcx>(tcx: TyCtxt<'tcx>, ldid: LocalDefId, body: &'tcx hir::Body<'tcx>) -> J {
    let tr = tcx.typeck(ldid);
    let cx = Cx { tcx, tr, owner: ldid };
    let params = body
        .params
        .iter()
        .map(|p| {
            J::O(vec![
                ("pat", cx.pat(p.pat)),
                ("ty", J::s(ty_str(tr.node_type(p.hir_id)))),
            ])
        })
        .collect();
    J::O(vec![("params", J::A(params)), ("body", cx.expr(body.value))])
}

struct Cx<'tcx> {
    tcx: TyCtxt<'tcx>,
    tr: &'tcx TypeckResults<'tcx>,
    owner: LocalDefId,
}

fn node(k: &str, rest: Vec<(&'static str, J)>) -> Vec<(&'static str, J)> {
    let mut v = vec![("k", J::s(k))];
    v.extend(rest);
    v
}

impl<'tcx> Cx<'tcx> {
    fn res(&self, res: Res) -> J {
        match res {
            Res::Def(kind, did) => {
                let mut o = vec![
                    ("res", J::s("def")),
                    ("dk", J::s(format!("{:?}", kind))),
                    ("path", J::s(path_str(self.tcx, did))),
                ];
                // for constructors record parent variant/struct path
                if let DefKind::Ctor(..) = kind {
                    let parent = self.tcx.parent(did);
                    o.push(("ctor_of", J::s(path_str(self.tcx, parent))));
                }
                J::O(o)
            }
            Res::Local(id) => J::O(vec![
                ("res", J::s("local")),
                ("name", J::s(self.tcx.hir_name(id).to_string())),
                ("id", J::i(id.local_id.as_u32())),
            ]),
            Res::SelfCtor(did) => J::O(vec![("res", J::s("selfctor")), ("path", J::s(path_str(self.tcx, did)))]),
            Res::SelfTyAlias { alias_to, .. } => {
                J::O(vec![("res", J::s("selfty")), ("path", J::s(path_str(self.tcx, alias_to)))])
            }
            other => J::O(vec![("res", J::s(format!("{:?}", other)))]),
        }
    }

    fn qpath(&self, qp: &hir::QPath<'tcx>, id: hir::HirId) -> J {
        self.res(self.tr.qpath_res(qp, id))
    }

    fn lit(&self, lit: &hir::Lit, negated: bool) -> Vec<(&'static str, J)> {
        use rustc_ast::LitKind;
        match lit.node {
            LitKind::Str(s, _) => vec![("lk", J::s("str")), ("v", J::s(s.as_str()))],
            LitKind::ByteStr(s, _) | LitKind::CStr(s, _) => {
                vec![("lk", J::s("bytestr")), ("v", J::s(crate::hex(s.as_byte_str())))]
            }
            LitKind::Byte(b) => vec![("lk", J::s("byte")), ("v", J::i(b))],
            LitKind::Char(c) => vec![("lk", J::s("char")), ("v", J::s(c.to_string())), ("cp", J::i(c as u32))],
            LitKind::Int(n, _) => {
                let v = n.get() as i128;
                vec![("lk", J::s("int")), ("v", J::I(if negated { -v } else { v }))]
            }
            LitKind::Float(s, _) => vec![
                ("lk", J::s("float")),
                ("v", J::s(if negated { format!("-{}", s.as_str()) } else { s.as_str().to_string() })),
            ],
            LitKind::Bool(b) => vec![("lk", J::s("bool")), ("v", J::B(b))],
            LitKind::Err(_) => vec![("lk", J::s("err"))],
        }
    }

    fn pat_expr(&self, pe: &hir::PatExpr<'tcx>) -> J {
        match &pe.kind {
            hir::PatExprKind::Lit { lit, negated } => {
                let mut o = node("PLit", self.lit(lit, *negated));
                o.push(("ty", J::s(ty_str(self.tr.node_type(pe.hir_id)))));
                J::O(o)
            }
            hir::PatExprKind::Path(qp) => J::O(node("PPath", vec![("to", self.qpath(qp, pe.hir_id))])),
        }
    }

    fn pat(&self, p: &hir::Pat<'tcx>) -> J {
        use hir::PatKind::*;
        let mut o = match &p.kind {
            Missing => node("PMissing", vec![]),
            Wild => node("PWild", vec![]),
            Binding(mode, id, ident, sub) => node(
                "PBind",
                vec![
                    ("name", J::s(ident.name.to_string())),
                    ("id", J::i(id.local_id.as_u32())),
                    ("mode", J::s(format!("{:?}", mode))),
                    ("sub", J::opt(sub.map(|s| self.pat(s)))),
                ],
            ),
            Struct(qp, fields, rest) => node(
                "PStruct",
                vec![
                    ("to", self.qpath(qp, p.hir_id)),
                    (
                        "fields",
                        J::A(fields
                            .iter()
                            .map(|f| J::O(vec![("name", J::s(f.ident.name.to_string())), ("pat", self.pat(f.pat))]))
                            .collect()),
                    ),
                    ("rest", J::B(rest.is_some())),
                ],
            ),
            TupleStruct(qp, pats, _) => node(
                "PTupleStruct",
                vec![("to", self.qpath(qp, p.hir_id)), ("pats", J::A(pats.iter().map(|x| self.pat(x)).collect()))],
            ),
            Or(pats) => node("POr", vec![("pats", J::A(pats.iter().map(|x| self.pat(x)).collect()))]),
            Never => node("PNever", vec![]),
            Tuple(pats, _) => node("PTuple", vec![("pats", J::A(pats.iter().map(|x| self.pat(x)).collect()))]),
            Box(x) => node("PBox", vec![("pat", self.pat(x))]),
            Deref(x) => node("PDeref", vec![("pat", self.pat(x))]),
            Ref(x, _, _) => node("PRef", vec![("pat", self.pat(x))]),
            Expr(pe) => node("PExpr", vec![("e", self.pat_expr(pe))]),
            Guard(x, e) => node("PGuard", vec![("pat", self.pat(x)), ("cond", self.expr(e))]),
            Range(lo, hi, end) => node(
                "PRange",
                vec![
                    ("lo", J::opt(lo.map(|x| self.pat_expr(x)))),
                    ("hi", J::opt(hi.map(|x| self.pat_expr(x)))),
                    ("end", J::s(format!("{:?}", end))),
                ],
            ),
            Slice(a, m, b) => node(
                "PSlice",
                vec![
                    ("before", J::A(a.iter().map(|x| self.pat(x)).collect())),
                    ("mid", J::opt(m.map(|x| self.pat(x)))),
                    ("after", J::A(b.iter().map(|x| self.pat(x)).collect())),
                ],
            ),
            Err(_) => node("PErr", vec![]),
        };
        o.push(("ty", J::s(ty_str(self.tr.node_type(p.hir_id)))));
        o.push(("sp", span_json(self.tcx, p.span)));
        J::O(o)
    }

    fn block(&self, b: &hir::Block<'tcx>) -> Vec<(&'static str, J)> {
        let stmts: Vec<J> = b.stmts.iter().filter_map(|s| self.stmt(s)).collect();
        vec![
            ("stmts", J::A(stmts)),
            ("expr", J::opt(b.expr.map(|e| self.expr(e)))),
            ("unsafe", if matches!(b.rules, hir::BlockCheckMode::UnsafeBlock(_)) { J::B(true) } else { J::Null }),
        ]
    }

    fn stmt(&self, s: &hir::Stmt<'tcx>) -> Option<J> {
        match &s.kind {
            hir::StmtKind::Let(l) => Some(J::O(node(
                "SLet",
                vec![
                    ("pat", self.pat(l.pat)),
                    ("init", J::opt(l.init.map(|e| self.expr(e)))),
                    ("els", J::opt(l.els.map(|b| J::O(node("Block", self.block(b)))))),
                    ("sp", span_json(self.tcx, s.span)),
                ],
            ))),
            hir::StmtKind::Item(_) => None,
            hir::StmtKind::Expr(e) => Some(self.expr(e)),
            hir::StmtKind::Semi(e) => Some(J::O(node("SSemi", vec![("e", self.expr(e))]))),
        }
    }

    fn try_resolve(&self, did: rustc_hir::def_id::DefId, args: ty::GenericArgsRef<'tcx>) -> Option<String> {
        use rustc_middle::ty::TypeVisitableExt;
        if self.tcx.generics_of(did).count() != args.len() {
            return None;
        }
        if args.has_non_region_infer() || args.has_non_region_param() || args.has_aliases() {
            // generic context (e.g. `impl FnMut(Move)` parameter): leave unresolved
            return None;
        }
        let typing_env = ty::TypingEnv::post_analysis(self.tcx, self.owner.to_def_id());
        let args = self.tcx.try_normalize_erasing_regions(typing_env, ty::Unnormalized::new_wip(args)).ok()?;
        match ty::Instance::try_resolve(self.tcx, typing_env, did, args) {
            Ok(Some(inst)) => Some(path_str(self.tcx, inst.def_id())),
            _ => None,
        }
    }

    fn resolve_method(&self, e: &hir::Expr<'tcx>) -> (J, J) {
        // (declared callee, resolved impl callee)
        let Some(did) = self.tr.type_dependent_def_id(e.hir_id) else {
            return (J::Null, J::Null);
        };
        let declared = J::s(path_str(self.tcx, did));
        let args = self.tr.node_args(e.hir_id);
        let typing_env = ty::TypingEnv::post_analysis(self.tcx, self.owner.to_def_id());
        let _ = typing_env;
        let resolved = J::opt(self.try_resolve(did, args).map(J::S));
        (declared, resolved)
    }

    fn expr(&self, e: &hir::Expr<'tcx>) -> J {
        use hir::ExprKind::*;
        let mut o = match &e.kind {
            ConstBlock(_) => node("ConstBlock", vec![]),
            Array(xs) => node("Array", vec![("elems", J::A(xs.iter().map(|x| self.expr(x)).collect()))]),
            Call(f, args) => {
                let callee = match &f.kind {
                    Path(qp) => match self.tr.qpath_res(qp, f.hir_id) {
                        Res::Def(kind, did) => {
                            let mut c = vec![("path", J::s(path_str(self.tcx, did))), ("dk", J::s(format!("{:?}", kind)))];
                            if let DefKind::Ctor(..) = kind {
                                c.push(("ctor_of", J::s(path_str(self.tcx, self.tcx.parent(did)))));
                            }
                            // try to resolve trait-associated fns
                            if matches!(kind, DefKind::AssocFn | DefKind::Fn) {
                                let args = self.tr.node_args(f.hir_id);
                                if let Some(r) = self.try_resolve(did, args) {
                                    c.push(("resolved", J::S(r)));
                                }
                            }
                            J::O(c)
                        }
                        _ => J::Null,
                    },
                    _ => J::Null,
                };
                node(
                    "Call",
                    vec![
                        ("callee", callee),
                        ("f", self.expr(f)),
                        ("args", J::A(args.iter().map(|x| self.expr(x)).collect())),
                    ],
                )
            }
            MethodCall(seg, recv, args, _) => {
                let (declared, resolved) = self.resolve_method(e);
                node(
                    "MethodCall",
                    vec![
                        ("name", J::s(seg.ident.name.to_string())),
                        ("callee", declared),
                        ("resolved", resolved),
                        ("recv", self.expr(recv)),
                        ("args", J::A(args.iter().map(|x| self.expr(x)).collect())),
                    ],
                )
            }
            Use(x, _) => node("Use", vec![("e", self.expr(x))]),
            Tup(xs) => node("Tup", vec![("elems", J::A(xs.iter().map(|x| self.expr(x)).collect()))]),
            Binary(op, a, b) => node(
                "Binary",
                vec![("op", J::s(op.node.as_str())), ("l", self.expr(a)), ("r", self.expr(b))],
            ),
            Unary(op, a) => node("Unary", vec![("op", J::s(format!("{:?}", op))), ("e", self.expr(a))]),
            Lit(l) => node("Lit", self.lit(l, false)),
            Cast(x, _) => node("Cast", vec![("e", self.expr(x))]),
            Type(x, _) => node("Type", vec![("e", self.expr(x))]),
            DropTemps(x) => return self.expr(x),
            Let(l) => node("Let", vec![("pat", self.pat(l.pat)), ("init", self.expr(l.init))]),
            If(c, t, el) => node(
                "If",
                vec![("cond", self.expr(c)), ("then", self.expr(t)), ("else", J::opt(el.map(|x| self.expr(x))))],
            ),
            Loop(b, label, src, _) => {
                let mut v = self.block(b);
                v.push(("src", J::s(format!("{:?}", src))));
                v.push(("label", J::opt(label.map(|l| J::s(l.ident.name.to_string())))));
                node("Loop", v)
            }
            Match(x, arms, src) => node(
                "Match",
                vec![
                    ("e", self.expr(x)),
                    ("src", J::s(format!("{:?}", src))),
                    (
                        "arms",
                        J::A(arms
                            .iter()
                            .map(|a| {
                                J::O(vec![
                                    ("pat", self.pat(a.pat)),
                                    ("guard", J::opt(a.guard.map(|g| self.expr(g)))),
                                    ("body", self.expr(a.body)),
                                    ("sp", span_json(self.tcx, a.span)),
                                ])
                            })
                            .collect()),
                    ),
                ],
            ),
            Closure(c) => {
                let body = self.tcx.hir_body(c.body);
                node(
                    "Closure",
                    vec![
                        ("def", J::s(path_str(self.tcx, c.def_id.to_def_id()))),
                        ("by_move", J::B(matches!(c.capture_clause, hir::CaptureBy::Value { .. }))),
                        ("params", J::A(body.params.iter().map(|p| self.pat(p.pat)).collect())),
                        ("body", self.expr(body.value)),
                    ],
                )
            }
            Block(b, label) => {
                let mut v = self.block(b);
                v.push(("label", J::opt(label.map(|l| J::s(l.ident.name.to_string())))));
                node("Block", v)
            }
            Assign(l, r, _) => node("Assign", vec![("l", self.expr(l)), ("r", self.expr(r))]),
            AssignOp(op, l, r) => node(
                "AssignOp",
                vec![("op", J::s(op.node.as_str())), ("l", self.expr(l)), ("r", self.expr(r))],
            ),
            Field(x, ident) => node("Field", vec![("e", self.expr(x)), ("name", J::s(ident.name.to_string()))]),
            Index(x, i, _) => node("Index", vec![("e", self.expr(x)), ("i", self.expr(i))]),
            Path(qp) => node("Path", vec![("to", self.qpath(qp, e.hir_id))]),
            AddrOf(_, m, x) => node("AddrOf", vec![("mut", J::B(m.is_mut())), ("e", self.expr(x))]),
            Break(dest, x) => node(
                "Break",
                vec![
                    ("label", J::opt(dest.label.map(|l| J::s(l.ident.name.to_string())))),
                    ("e", J::opt(x.map(|x| self.expr(x)))),
                ],
            ),
            Continue(dest) => node(
                "Continue",
                vec![("label", J::opt(dest.label.map(|l| J::s(l.ident.name.to_string()))))],
            ),
            Ret(x) => node("Ret", vec![("e", J::opt(x.map(|x| self.expr(x))))]),
            Become(x) => node("Become", vec![("e", self.expr(x))]),
            InlineAsm(_) => node("InlineAsm", vec![]),
            OffsetOf(..) => node("OffsetOf", vec![]),
            Struct(qp, fields, tail) => node(
                "Struct",
                vec![
                    ("to", self.qpath(qp, e.hir_id)),
                    (
                        "fields",
                        J::A(fields
                            .iter()
                            .map(|f| {
                                J::O(vec![
                                    ("name", J::s(f.ident.name.to_string())),
                                    ("e", self.expr(f.expr)),
                                ])
                            })
                            .collect()),
                    ),
                    (
                        "base",
                        match tail {
                            hir::StructTailExpr::Base(b) => self.expr(b),
                            _ => J::Null,
                        },
                    ),
                ],
            ),
            Repeat(x, _) => node("Repeat", vec![("e", self.expr(x))]),
            Yield(..) => node("Yield", vec![]),
            UnsafeBinderCast(_, x, _) => node("UnsafeBinderCast", vec![("e", self.expr(x))]),
            Err(_) => node("Err", vec![]),
        };
        o.push(("ty", J::s(ty_str(self.tr.expr_ty(e)))));
        o.push(("sp", span_json(self.tcx, e.span)));
        if e.span.from_expansion() {
            // name of the outermost macro, e.g. `println`, `bail`, `search_deltas`
            let ed = e.span.ctxt().outer_expn_data();
            if let rustc_span::ExpnKind::Macro(_, name) = ed.kind {
                o.push(("mac", J::s(name.to_string())));
            } else {
                o.push(("mac", J::s(format!("{:?}", ed.kind))));
            }
        }
        J::O(o)
    }
}
