//! Minimal JSON value + writer (no external crates are available offline).

pub enum J {
    Null,
    B(bool),
    I(i128),
    S(String),
    A(Vec<J>),
    O(Vec<(&'static str, J)>),
}

impl J {
    pub fn s(x: impl Into<String>) -> J {
        J::S(x.into())
    }
    pub fn i(x: impl TryInto<i128>) -> J {
        match x.try_into() {
            Ok(v) => J::I(v),
            Err(_) => J::Null,
        }
    }
    pub fn opt(x: Option<J>) -> J {
        x.unwrap_or(J::Null)
    }
    pub fn write(&self, out: &mut String) {
        match self {
            J::Null => out.push_str("null"),
            J::B(b) => out.push_str(if *b { "true" } else { "false" }),
            J::I(i) => out.push_str(&i.to_string()),
            J::S(s) => write_str(s, out),
            J::A(v) => {
                out.push('[');
                for (k, x) in v.iter().enumerate() {
                    if k > 0 {
                        out.push(',');
                    }
                    x.write(out);
                }
                out.push(']');
            }
            J::O(v) => {
                out.push('{');
                let mut first = true;
                for (k, x) in v.iter() {
                    if matches!(x, J::Null) {
                        continue;
                    }
                    if !first {
                        out.push(',');
                    }
                    first = false;
                    write_str(k, out);
                    out.push(':');
                    x.write(out);
                }
                out.push('}');
            }
        }
    }
}

fn write_str(s: &str, out: &mut String) {
    out.push('"');
    for c in s.chars() {
        match c {
            '"' => out.push_str("\\\""),
            '\\' => out.push_str("\\\\"),
            '\n' => out.push_str("\\n"),
            '\r' => out.push_str("\\r"),
            '\t' => out.push_str("\\t"),
            c if (c as u32) < 0x20 => out.push_str(&format!("\\u{:04x}", c as u32)),
            c => out.push(c),
        }
    }
    out.push('"');
}
