//! chessfacts: a rustc_private driver that serialises what the compiler knows about
//! the crate being checked (items, const-evaluated values, typed HIR bodies, MIR
//! bodies with resolved callees) into ONE JSON file.  It contains no rule: the
//! property rules live in /verif/rules (Python).
//!
//! Use:  RUSTC_WORKSPACE_WRAPPER=<this binary> CHESSFACTS_OUT=<file> cargo +nightly check
//! (cargo invokes `<wrapper> <rustc> <args...>`; argv[1] is dropped).
#![feature(rustc_private)]
#![allow(clippy::all)]

extern crate rustc_abi;
extern crate rustc_ast;
extern crate rustc_data_structures;
extern crate rustc_driver;
extern crate rustc_hir;
extern crate rustc_interface;
extern crate rustc_middle;
extern crate rustc_session;
extern crate rustc_span;

mod hirdump;
mod json;
mod mirdump;

use json::J;
use rustc_driver::Compilation;
use rustc_hir::def::DefKind;
use rustc_middle::ty::TyCtxt;
use rustc_span::Span;

struct Cb;

impl rustc_driver::Callbacks for Cb {
    fn after_analysis<'tcx>(
        &mut self,
        _compiler: &rustc_interface::interface::Compiler,
        tcx: TyCtxt<'tcx>,
    ) -> Compilation {
        let out = match std::env::var("CHESSFACTS_OUT") {
            Ok(o) => o,
            Err(_) => return Compilation::Continue,
        };
        let krate = tcx.crate_name(rustc_hir::def_id::LOCAL_CRATE).to_string();
        if let Ok(want) = std::env::var("CHESSFACTS_CRATE") {
            if want != krate {
                return Compilation::Continue;
            }
        }
        let facts = dump(tcx, &krate);
        let mut s = String::with_capacity(1 << 24);
        facts.write(&mut s);
        std::fs::write(&out, s).expect("write facts");
        Compilation::Continue
    }
}

pub fn span_json(tcx: TyCtxt<'_>, sp: Span) -> J {
    // position where the tokens were written + the outermost macro call site
    let sm = tcx.sess.source_map();
    let lo = sm.lookup_char_pos(sp.lo());
    let hi = sm.lookup_char_pos(sp.hi());
    let mut v = vec![
        J::i(lo.line),
        J::i(lo.col.0 + 1),
        J::i(hi.line),
        J::i(hi.col.0 + 1),
    ];
    if sp.from_expansion() {
        let cs = sp.source_callsite();
        let c = sm.lookup_char_pos(cs.lo());
        v.push(J::i(c.line));
    }
    J::A(v)
}

pub fn file_of(tcx: TyCtxt<'_>, sp: Span) -> String {
    let sm = tcx.sess.source_map();
    let lo = sm.lookup_char_pos(sp.source_callsite().lo());
    format!("{}", lo.file.name.prefer_local_unconditionally())
}

pub fn ty_str<'tcx>(ty: rustc_middle::ty::Ty<'tcx>) -> String {
    rustc_middle::ty::print::with_no_trimmed_paths!(format!("{}", ty))
}

pub fn path_str(tcx: TyCtxt<'_>, did: rustc_hir::def_id::DefId) -> String {
    rustc_middle::ty::print::with_no_trimmed_paths!(tcx.def_path_str(did))
}

fn dump<'tcx>(tcx: TyCtxt<'tcx>, krate: &str) -> J {
    let mut fns = Vec::new();
    let mut consts = Vec::new();
    let mut adts = Vec::new();
    let mut statics = Vec::new();

    for ldid in tcx.hir_crate_items(()).definitions() {
        let did = ldid.to_def_id();
        let kind = tcx.def_kind(did);
        match kind {
            DefKind::Struct | DefKind::Enum | DefKind::Union => {
                adts.push(dump_adt(tcx, did));
            }
            DefKind::Const { .. } | DefKind::AssocConst { .. } => {
                consts.push(dump_const(tcx, did));
            }
            DefKind::Static { .. } => {
                statics.push(J::O(vec![
                    ("path", J::s(path_str(tcx, did))),
                    ("ty", J::s(ty_str(tcx.type_of(did).instantiate_identity().skip_norm_wip()))),
                    ("mutable", J::B(tcx.is_mutable_static(did))),
                ]));
            }
            _ => {}
        }
    }

    for ldid in tcx.hir_body_owners() {
        let did = ldid.to_def_id();
        let kind = tcx.def_kind(did);
        match kind {
            DefKind::Fn | DefKind::AssocFn | DefKind::Closure => {
                fns.push(dump_fn(tcx, ldid, kind));
            }
            _ => {}
        }
    }

    let mut cfgs: Vec<String> = tcx
        .sess
        .config
        .iter()
        .map(|(k, v)| match v {
            Some(v) => format!("{}={}", k, v),
            None => format!("{}", k),
        })
        .collect();
    cfgs.sort();

    J::O(vec![
        ("crate", J::s(krate)),
        ("rustc", J::s(rustc_interface::util::rustc_version_str().unwrap_or("?"))),
        ("overflow_checks", J::B(tcx.sess.overflow_checks())),
        ("debug_assertions", J::B(tcx.sess.opts.debug_assertions)),
        ("test_harness", J::B(tcx.sess.is_test_crate())),
        ("cfg", J::A(cfgs.into_iter().map(J::S).collect())),
        ("adts", J::A(adts)),
        ("consts", J::A(consts)),
        ("statics", J::A(statics)),
        ("fns", J::A(fns)),
    ])
}

fn vis_str(tcx: TyCtxt<'_>, did: rustc_hir::def_id::DefId) -> String {
    match tcx.visibility(did) {
        rustc_middle::ty::Visibility::Public => "pub".to_string(),
        rustc_middle::ty::Visibility::Restricted(m) => {
            if m.is_crate_root() {
                "crate".to_string()
            } else {
                format!("in:{}", path_str(tcx, m))
            }
        }
    }
}

fn dump_adt<'tcx>(tcx: TyCtxt<'tcx>, did: rustc_hir::def_id::DefId) -> J {
    let adt = tcx.adt_def(did);
    let mut variants = Vec::new();
    for (idx, v) in adt.variants().iter_enumerated() {
        let discr = if adt.is_enum() {
            let d = adt.discriminant_for_variant(tcx, idx);
            // sign-extend according to the discriminant type
            let size = rustc_abi::Integer::from_attr(&tcx, adt.repr().discr_type()).size();
            let val = if adt.repr().discr_type().is_signed() {
                size.sign_extend(d.val) as i128
            } else {
                d.val as i128
            };
            J::I(val)
        } else {
            J::Null
        };
        let fields = v
            .fields
            .iter()
            .map(|f| {
                J::O(vec![
                    ("name", J::s(f.name.to_string())),
                    ("ty", J::s(ty_str(tcx.type_of(f.did).instantiate_identity().skip_norm_wip()))),
                    ("vis", J::s(vis_str(tcx, f.did))),
                ])
            })
            .collect();
        variants.push(J::O(vec![
            ("name", J::s(v.name.to_string())),
            ("idx", J::i(idx.as_usize())),
            ("discr", discr),
            ("fields", J::A(fields)),
        ]));
    }
    J::O(vec![
        ("path", J::s(path_str(tcx, did))),
        ("kind", J::s(if adt.is_enum() { "enum" } else if adt.is_struct() { "struct" } else { "union" })),
        ("file", J::s(file_of(tcx, tcx.def_span(did)))),
        ("span", span_json(tcx, tcx.def_span(did))),
        ("vis", J::s(vis_str(tcx, did))),
        ("variants", J::A(variants)),
    ])
}

pub fn hex(bytes: &[u8]) -> String {
    let mut s = String::with_capacity(bytes.len() * 2);
    for b in bytes {
        s.push_str(&format!("{:02x}", b));
    }
    s
}

pub fn const_value_json<'tcx>(
    tcx: TyCtxt<'tcx>,
    val: rustc_middle::mir::ConstValue,
    ty: rustc_middle::ty::Ty<'tcx>,
) -> J {
    use rustc_middle::mir::ConstValue;
    let typing_env = rustc_middle::ty::TypingEnv::fully_monomorphized();
    let size = tcx
        .layout_of(typing_env.as_query_input(ty))
        .ok()
        .map(|l| l.size.bytes() as usize);
    match val {
        ConstValue::Scalar(rustc_middle::mir::interpret::Scalar::Int(i)) => {
            let bits = i.to_bits_unchecked();
            let n = i.size().bytes() as usize;
            let bytes = bits.to_le_bytes();
            J::O(vec![("bytes", J::s(hex(&bytes[..n]))), ("bits", J::S(bits.to_string()))])
        }
        ConstValue::Scalar(rustc_middle::mir::interpret::Scalar::Ptr(p, _)) => {
            // reference to another allocation (e.g. &'static [i16; 64]); follow one level
            let (prov, off) = p.into_raw_parts();
            let alloc_id = prov.alloc_id();
            match tcx.try_get_global_alloc(alloc_id) {
                Some(rustc_middle::mir::interpret::GlobalAlloc::Memory(mem)) => {
                    let a = mem.inner();
                    let bytes = a.inspect_with_uninit_and_ptr_outside_interpreter(off.bytes() as usize..a.len());
                    J::O(vec![("ptr_to_bytes", J::s(hex(bytes)))])
                }
                _ => J::O(vec![("ptr", J::s("opaque"))]),
            }
        }
        ConstValue::ZeroSized => J::O(vec![("zst", J::B(true))]),
        ConstValue::Slice { alloc_id, meta } => {
            let mem = tcx.global_alloc(alloc_id).unwrap_memory();
            let a = mem.inner();
            let n = (meta as usize).min(a.len());
            let bytes = a.inspect_with_uninit_and_ptr_outside_interpreter(0..n);
            match std::str::from_utf8(bytes) {
                Ok(s) => J::O(vec![("str", J::s(s))]),
                Err(_) => J::O(vec![("bytes", J::s(hex(bytes)))]),
            }
        }
        ConstValue::Indirect { alloc_id, offset } => {
            let mem = tcx.global_alloc(alloc_id).unwrap_memory();
            let a = mem.inner();
            let start = offset.bytes() as usize;
            let end = size.map(|s| (start + s).min(a.len())).unwrap_or(a.len());
            let bytes = a.inspect_with_uninit_and_ptr_outside_interpreter(start..end);
            J::O(vec![("bytes", J::s(hex(bytes)))])
        }
    }
}

fn dump_const<'tcx>(tcx: TyCtxt<'tcx>, did: rustc_hir::def_id::DefId) -> J {
    let ty = tcx.type_of(did).instantiate_identity().skip_norm_wip();
    let val = match tcx.const_eval_poly(did) {
        Ok(v) => const_value_json(tcx, v, ty),
        Err(_) => J::Null,
    };
    let mut o = vec![
        ("path", J::s(path_str(tcx, did))),
        ("ty", J::s(ty_str(ty))),
        ("file", J::s(file_of(tcx, tcx.def_span(did)))),
        ("span", span_json(tcx, tcx.def_span(did))),
        ("value", val),
    ];
    // the initialiser as written (typed HIR): what a const of references evaluates to is not visible in its bytes
    if let Some(ldid) = did.as_local() {
        if let Some(body) = tcx.hir_maybe_body_owned_by(ldid) {
            o.push(("hir", hirdump::dump_body(tcx, ldid, body)));
        }
    }
    J::O(o)
}

fn dump_fn<'tcx>(tcx: TyCtxt<'tcx>, ldid: rustc_hir::def_id::LocalDefId, kind: DefKind) -> J {
    let did = ldid.to_def_id();
    let body = tcx.hir_body_owned_by(ldid);
    let hir_id = tcx.local_def_id_to_hir_id(ldid);
    let full_span = tcx.hir_span_with_body(hir_id);
    let is_closure = matches!(kind, DefKind::Closure);
    let mut o: Vec<(&'static str, J)> = vec![
        ("path", J::s(path_str(tcx, did))),
        ("kind", J::s(format!("{:?}", kind))),
        ("file", J::s(file_of(tcx, full_span))),
        ("span", span_json(tcx, full_span)),
    ];
    if !is_closure {
        let sig = tcx.fn_sig(did).instantiate_identity().skip_norm_wip().skip_binder();
        o.push(("vis", J::s(vis_str(tcx, did))));
        o.push(("unsafe", J::B(sig.safety().is_unsafe())));
        o.push((
            "inputs",
            J::A(sig.inputs().iter().map(|t| J::s(ty_str(*t))).collect()),
        ));
        o.push(("output", J::s(ty_str(sig.output()))));
        o.push(("is_const", J::B(tcx.is_const_fn(did))));
    } else {
        o.push(("parent", J::s(path_str(tcx, tcx.typeck_root_def_id(did)))));
    }
    // attributes of interest: #[test]-generated fns live inside `mod tests` (cfg(test)); record cfg(test)-ness by path
    o.push(("hir", hirdump::dump_body(tcx, ldid, body)));
    o.push(("mir", mirdump::dump_mir(tcx, ldid)));
    J::O(o)
}

fn main() {
    let mut args: Vec<String> = std::env::args().collect();
    // As RUSTC_WORKSPACE_WRAPPER: argv = [wrapper, rustc, args...]
    if args.len() > 1 && (args[1].ends_with("rustc") || args[1].contains("/rustc")) {
        args.remove(1);
    }
    let mut cb = Cb;
    rustc_driver::run_compiler(&args, &mut cb);
}
