//! MIR serialiser: locals, statements, terminators with callees resolved through
//! Instance::try_resolve (post-analysis typing env).

use crate::json::J;
use crate::{const_value_json, file_of, path_str, span_json, ty_str};
use rustc_hir::def_id::LocalDefId;
use rustc_middle::mir::*;
use rustc_middle::ty::{self, TyCtxt};

pub fn dump_mir<'tcx>(tcx: TyCtxt<'tcx>, ldid: LocalDefId) -> J {
    let did = ldid.to_def_id();
    if tcx.is_const_fn(did) && !tcx.is_mir_available(did) {
        return J::Null;
    }
    let body: &Body<'tcx> = tcx.optimized_mir(did);
    let cx = Cx { tcx, body, typing_env: ty::TypingEnv::post_analysis(tcx, did) };

    let mut names: Vec<Option<String>> = vec![None; body.local_decls.len()];
    let mut debug = Vec::new();
    for vdi in &body.var_debug_info {
        match &vdi.value {
            VarDebugInfoContents::Place(p) => {
                if p.projection.is_empty() {
                    names[p.local.as_usize()] = Some(vdi.name.to_string());
                }
                debug.push(J::O(vec![("name", J::s(vdi.name.to_string())), ("place", cx.place(p))]));
            }
            VarDebugInfoContents::Const(c) => {
                debug.push(J::O(vec![("name", J::s(vdi.name.to_string())), ("const", cx.constant(&c.const_))]));
            }
        }
    }

    let locals = body
        .local_decls
        .iter_enumerated()
        .map(|(l, d)| {
            J::O(vec![
                ("ty", J::s(ty_str(d.ty))),
                ("name", J::opt(names[l.as_usize()].clone().map(J::S))),
                ("mut", J::B(d.mutability.is_mut())),
                ("span", span_json(tcx, d.source_info.span)),
            ])
        })
        .collect();

    let blocks = body
        .basic_blocks
        .iter()
        .map(|bb| {
            let stmts: Vec<J> = bb.statements.iter().filter_map(|s| cx.stmt(s)).collect();
            J::O(vec![
                ("stmts", J::A(stmts)),
                ("term", cx.term(bb.terminator())),
                ("cleanup", if bb.is_cleanup { J::B(true) } else { J::Null }),
            ])
        })
        .collect();

    J::O(vec![
        ("arg_count", J::i(body.arg_count)),
        ("locals", J::A(locals)),
        ("debug", J::A(debug)),
        ("blocks", J::A(blocks)),
    ])
}

struct Cx<'a, 'tcx> {
    tcx: TyCtxt<'tcx>,
    body: &'a Body<'tcx>,
    typing_env: ty::TypingEnv<'tcx>,
}

impl<'a, 'tcx> Cx<'a, 'tcx> {
    fn place(&self, p: &Place<'tcx>) -> J {
        let mut proj = Vec::new();
        let mut ty = PlaceTy::from_ty(self.body.local_decls[p.local].ty);
        for elem in p.projection.iter() {
            let j = match elem {
                ProjectionElem::Deref => J::s("*"),
                ProjectionElem::Field(f, fty) => {
                    // name the field if the base is an ADT
                    let name = match ty.ty.kind() {
                        ty::Adt(adt, _) => {
                            let v = match ty.variant_index {
                                Some(v) => v,
                                None => rustc_abi::FIRST_VARIANT,
                            };
                            if adt.is_enum() && ty.variant_index.is_none() {
                                format!("{}", f.as_usize())
                            } else {
                                adt.variant(v).fields[f].name.to_string()
                            }
                        }
                        _ => format!("{}", f.as_usize()),
                    };
                    J::O(vec![("f", J::S(name)), ("i", J::i(f.as_usize())), ("ty", J::s(ty_str(fty)))])
                }
                ProjectionElem::Index(l) => J::O(vec![("idx", J::i(l.as_usize()))]),
                ProjectionElem::ConstantIndex { offset, from_end, .. } => {
                    J::O(vec![("cidx", J::i(offset)), ("from_end", J::B(from_end))])
                }
                ProjectionElem::Subslice { from, to, from_end } => {
                    J::O(vec![("sub", J::A(vec![J::i(from), J::i(to)])), ("from_end", J::B(from_end))])
                }
                ProjectionElem::Downcast(name, v) => J::O(vec![
                    ("variant", J::s(name.map(|s| s.to_string()).unwrap_or_default())),
                    ("vi", J::i(v.as_usize())),
                ]),
                ProjectionElem::OpaqueCast(_) => J::s("opaque"),
                ProjectionElem::UnwrapUnsafeBinder(_) => J::s("unwrap_binder"),
            };
            proj.push(j);
            ty = ty.projection_ty(self.tcx, elem);
        }
        J::O(vec![
            ("l", J::i(p.local.as_usize())),
            ("p", if proj.is_empty() { J::Null } else { J::A(proj) }),
            ("ty", J::s(ty_str(ty.ty))),
        ])
    }

    fn constant(&self, c: &Const<'tcx>) -> J {
        let ty = c.ty();
        let mut o: Vec<(&'static str, J)> = vec![("ty", J::s(ty_str(ty)))];
        match ty.kind() {
            ty::FnDef(did, args) => {
                o.push(("fn", J::s(path_str(self.tcx, *did))));
                o.push(("fn_generic", J::s(rustc_middle::ty::print::with_no_trimmed_paths!(
                    self.tcx.def_path_str_with_args(*did, args)
                ))));
                return J::O(o);
            }
            _ => {}
        }
        if let Const::Unevaluated(uv, _) = c {
            o.push(("def", J::s(path_str(self.tcx, uv.def))));
            if uv.promoted.is_some() {
                o.push(("promoted", J::B(true)));
            }
        }
        // try to evaluate
        let is_scalar_ty = ty.is_integral() || ty.is_bool() || ty.is_char() || ty.is_floating_point();
        if is_scalar_ty {
            if let Some(si) = c.try_eval_scalar_int(self.tcx, self.typing_env) {
                let bits = si.to_bits_unchecked();
                if ty.is_signed() {
                    let v = si.size().sign_extend(bits) as i128;
                    o.push(("int", J::I(v)));
                } else if ty.is_floating_point() {
                    let f = if si.size().bytes() == 8 {
                        f64::from_bits(bits as u64)
                    } else {
                        f32::from_bits(bits as u32) as f64
                    };
                    o.push(("float", J::s(format!("{:?}", f))));
                } else {
                    o.push(("int", J::i(bits)));
                }
            }
        } else {
            match c.eval(self.tcx, self.typing_env, rustc_span::DUMMY_SP) {
                Ok(v) => {
                    // &str / &[u8] / small aggregates
                    let vj = match (v, ty.kind()) {
                        (ConstValue::Scalar(rustc_middle::mir::interpret::Scalar::Ptr(..)), ty::Ref(_, inner, _)) => {
                            // pointer to array/struct: dump pointee bytes
                            let _ = inner;
                            const_value_json(self.tcx, v, ty)
                        }
                        _ => const_value_json(self.tcx, v, ty),
                    };
                    o.push(("val", vj));
                }
                Err(_) => {}
            }
        }
        J::O(o)
    }

    fn operand(&self, op: &Operand<'tcx>) -> J {
        match op {
            Operand::Copy(p) => J::O(vec![("k", J::s("copy")), ("place", self.place(p))]),
            Operand::Move(p) => J::O(vec![("k", J::s("move")), ("place", self.place(p))]),
            Operand::Constant(c) => J::O(vec![("k", J::s("const")), ("c", self.constant(&c.const_))]),
            Operand::RuntimeChecks(rc) => J::O(vec![("k", J::s("rtcheck")), ("what", J::s(format!("{:?}", rc)))]),
        }
    }

    fn rvalue(&self, rv: &Rvalue<'tcx>) -> J {
        match rv {
            Rvalue::Use(op, ..) => J::O(vec![("k", J::s("Use")), ("op", self.operand(op))]),
            Rvalue::Repeat(op, n) => J::O(vec![
                ("k", J::s("Repeat")),
                ("op", self.operand(op)),
                ("n", J::opt(n.try_to_target_usize(self.tcx).map(J::i))),
            ]),
            Rvalue::Ref(_, bk, p) => J::O(vec![
                ("k", J::s("Ref")),
                ("mut", J::B(matches!(bk, BorrowKind::Mut { .. }))),
                ("place", self.place(p)),
            ]),
            Rvalue::ThreadLocalRef(d) => J::O(vec![("k", J::s("ThreadLocalRef")), ("def", J::s(path_str(self.tcx, *d)))]),
            Rvalue::RawPtr(k, p) => J::O(vec![
                ("k", J::s("RawPtr")),
                ("mut", J::B(matches!(k, RawPtrKind::Mut))),
                ("place", self.place(p)),
            ]),
            Rvalue::Cast(ck, op, ty) => J::O(vec![
                ("k", J::s("Cast")),
                ("ck", J::s(format!("{:?}", ck))),
                ("op", self.operand(op)),
                ("from", J::s(ty_str(op.ty(self.body, self.tcx)))),
                ("to", J::s(ty_str(*ty))),
            ]),
            Rvalue::BinaryOp(op, ab) => J::O(vec![
                ("k", J::s("BinaryOp")),
                ("op", J::s(format!("{:?}", op))),
                ("a", self.operand(&ab.0)),
                ("b", self.operand(&ab.1)),
            ]),
            Rvalue::UnaryOp(op, a) => J::O(vec![
                ("k", J::s("UnaryOp")),
                ("op", J::s(format!("{:?}", op))),
                ("a", self.operand(a)),
            ]),
            Rvalue::Discriminant(p) => J::O(vec![("k", J::s("Discriminant")), ("place", self.place(p))]),
            Rvalue::Aggregate(kind, ops) => {
                let mut o: Vec<(&'static str, J)> = vec![("k", J::s("Aggregate"))];
                match &**kind {
                    AggregateKind::Array(t) => {
                        o.push(("ak", J::s("Array")));
                        o.push(("elem", J::s(ty_str(*t))));
                    }
                    AggregateKind::Tuple => o.push(("ak", J::s("Tuple"))),
                    AggregateKind::Adt(did, vi, _, _, _) => {
                        o.push(("ak", J::s("Adt")));
                        let adt = self.tcx.adt_def(*did);
                        o.push(("adt", J::s(path_str(self.tcx, *did))));
                        let v = adt.variant(*vi);
                        o.push(("variant", J::s(v.name.to_string())));
                        o.push(("fields", J::A(v.fields.iter().map(|f| J::s(f.name.to_string())).collect())));
                    }
                    AggregateKind::Closure(did, _) => {
                        o.push(("ak", J::s("Closure")));
                        o.push(("closure", J::s(path_str(self.tcx, *did))));
                    }
                    AggregateKind::Coroutine(..) | AggregateKind::CoroutineClosure(..) => {
                        o.push(("ak", J::s("Coroutine")))
                    }
                    AggregateKind::RawPtr(..) => o.push(("ak", J::s("RawPtr"))),
                }
                o.push(("ops", J::A(ops.iter().map(|x| self.operand(x)).collect())));
                J::O(o)
            }
            Rvalue::CopyForDeref(p) => J::O(vec![("k", J::s("CopyForDeref")), ("place", self.place(p))]),
            Rvalue::WrapUnsafeBinder(op, _) => J::O(vec![("k", J::s("WrapUnsafeBinder")), ("op", self.operand(op))]),
        }
    }

    fn stmt(&self, s: &Statement<'tcx>) -> Option<J> {
        let sp = span_json(self.tcx, s.source_info.span);
        match &s.kind {
            StatementKind::Assign(b) => Some(J::O(vec![
                ("k", J::s("Assign")),
                ("place", self.place(&b.0)),
                ("rv", self.rvalue(&b.1)),
                ("span", sp),
            ])),
            StatementKind::SetDiscriminant { place, variant_index } => Some(J::O(vec![
                ("k", J::s("SetDiscriminant")),
                ("place", self.place(place)),
                ("vi", J::i(variant_index.as_usize())),
                ("span", sp),
            ])),
            StatementKind::StorageLive(l) => Some(J::O(vec![("k", J::s("StorageLive")), ("l", J::i(l.as_usize()))])),
            StatementKind::StorageDead(l) => Some(J::O(vec![("k", J::s("StorageDead")), ("l", J::i(l.as_usize()))])),
            StatementKind::Intrinsic(i) => Some(J::O(vec![
                ("k", J::s("Intrinsic")),
                ("what", J::s(format!("{:?}", i))),
                ("span", sp),
            ])),
            _ => None,
        }
    }

    fn resolve_callee(&self, func: &Operand<'tcx>) -> (J, J) {
        // returns (resolved path, resolved generic path)
        if let Some((did, args)) = func.const_fn_def() {
            let args = self.tcx.normalize_erasing_regions(self.typing_env, ty::Unnormalized::new_wip(args));
            match ty::Instance::try_resolve(self.tcx, self.typing_env, did, args) {
                Ok(Some(inst)) => {
                    let rd = inst.def_id();
                    let p = path_str(self.tcx, rd);
                    let g = rustc_middle::ty::print::with_no_trimmed_paths!(
                        self.tcx.def_path_str_with_args(rd, inst.args)
                    );
                    let kind = match inst.def {
                        ty::InstanceKind::Item(_) => "item",
                        ty::InstanceKind::Intrinsic(_) => "intrinsic",
                        ty::InstanceKind::Virtual(..) => "virtual",
                        ty::InstanceKind::ClosureOnceShim { .. } => "closure_once_shim",
                        ty::InstanceKind::FnPtrShim(..) => "fnptr_shim",
                        ty::InstanceKind::DropGlue(..) => "drop_glue",
                        ty::InstanceKind::CloneShim(..) => "clone_shim",
                        _ => "shim",
                    };
                    let _ = kind;
                    (J::S(p), J::S(g))
                }
                _ => (J::Null, J::Null),
            }
        } else {
            (J::Null, J::Null)
        }
    }

    fn term(&self, t: &Terminator<'tcx>) -> J {
        let sp = span_json(self.tcx, t.source_info.span);
        let unwind = |u: &UnwindAction| match u {
            UnwindAction::Cleanup(bb) => J::i(bb.as_usize()),
            _ => J::Null,
        };
        match &t.kind {
            TerminatorKind::Goto { target } => J::O(vec![("k", J::s("Goto")), ("target", J::i(target.as_usize()))]),
            TerminatorKind::SwitchInt { discr, targets } => {
                let ts: Vec<J> = targets
                    .iter()
                    .map(|(v, bb)| J::A(vec![J::i(v), J::i(bb.as_usize())]))
                    .collect();
                J::O(vec![
                    ("k", J::s("SwitchInt")),
                    ("discr", self.operand(discr)),
                    ("discr_ty", J::s(ty_str(discr.ty(self.body, self.tcx)))),
                    ("targets", J::A(ts)),
                    ("otherwise", J::i(targets.otherwise().as_usize())),
                    ("span", sp),
                ])
            }
            TerminatorKind::UnwindResume => J::O(vec![("k", J::s("UnwindResume"))]),
            TerminatorKind::UnwindTerminate(_) => J::O(vec![("k", J::s("UnwindTerminate"))]),
            TerminatorKind::Return => J::O(vec![("k", J::s("Return")), ("span", sp)]),
            TerminatorKind::Unreachable => J::O(vec![("k", J::s("Unreachable")), ("span", sp)]),
            TerminatorKind::Drop { place, target, unwind: u, .. } => J::O(vec![
                ("k", J::s("Drop")),
                ("place", self.place(place)),
                ("target", J::i(target.as_usize())),
                ("unwind", unwind(u)),
                ("span", sp),
            ]),
            TerminatorKind::Call { func, args, destination, target, unwind: u, fn_span, .. } => {
                let (callee, callee_g) = self.resolve_callee(func);
                J::O(vec![
                    ("k", J::s("Call")),
                    ("func", self.operand(func)),
                    ("callee", callee),
                    ("callee_generic", callee_g),
                    ("args", J::A(args.iter().map(|a| self.operand(&a.node)).collect())),
                    ("dest", self.place(destination)),
                    ("target", J::opt(target.map(|t| J::i(t.as_usize())))),
                    ("unwind", unwind(u)),
                    ("span", sp),
                    ("fn_span", span_json(self.tcx, *fn_span)),
                    ("file", J::s(file_of(self.tcx, t.source_info.span))),
                ])
            }
            TerminatorKind::TailCall { func, args, .. } => {
                let (callee, callee_g) = self.resolve_callee(func);
                J::O(vec![
                    ("k", J::s("TailCall")),
                    ("func", self.operand(func)),
                    ("callee", callee),
                    ("callee_generic", callee_g),
                    ("args", J::A(args.iter().map(|a| self.operand(&a.node)).collect())),
                    ("span", sp),
                ])
            }
            TerminatorKind::Assert { cond, expected, msg, target, unwind: u } => {
                let (mk, ops): (String, Vec<J>) = match &**msg {
                    AssertKind::BoundsCheck { len, index } => {
                        ("BoundsCheck".into(), vec![self.operand(len), self.operand(index)])
                    }
                    AssertKind::Overflow(op, a, b) => {
                        (format!("Overflow:{:?}", op), vec![self.operand(a), self.operand(b)])
                    }
                    AssertKind::OverflowNeg(a) => ("OverflowNeg".into(), vec![self.operand(a)]),
                    AssertKind::DivisionByZero(a) => ("DivisionByZero".into(), vec![self.operand(a)]),
                    AssertKind::RemainderByZero(a) => ("RemainderByZero".into(), vec![self.operand(a)]),
                    AssertKind::MisalignedPointerDereference { .. } => ("Misaligned".into(), vec![]),
                    AssertKind::NullPointerDereference => ("NullDeref".into(), vec![]),
                    AssertKind::InvalidEnumConstruction(a) => ("InvalidEnum".into(), vec![self.operand(a)]),
                    _ => ("Other".into(), vec![]),
                };
                J::O(vec![
                    ("k", J::s("Assert")),
                    ("cond", self.operand(cond)),
                    ("expected", J::B(*expected)),
                    ("msg", J::S(mk)),
                    ("ops", J::A(ops)),
                    ("target", J::i(target.as_usize())),
                    ("unwind", unwind(u)),
                    ("span", sp),
                ])
            }
            TerminatorKind::FalseEdge { real_target, .. } => {
                J::O(vec![("k", J::s("Goto")), ("target", J::i(real_target.as_usize()))])
            }
            TerminatorKind::FalseUnwind { real_target, .. } => {
                J::O(vec![("k", J::s("Goto")), ("target", J::i(real_target.as_usize()))])
            }
            TerminatorKind::Yield { .. } => J::O(vec![("k", J::s("Yield"))]),
            TerminatorKind::CoroutineDrop => J::O(vec![("k", J::s("CoroutineDrop"))]),
            TerminatorKind::InlineAsm { .. } => J::O(vec![("k", J::s("InlineAsm")), ("span", sp)]),
        }
    }
}
